#!/usr/bin/env python3
"""benign.py verify <src-dir> <name> <property>
Confirms an independently written behaviour-PRESERVING change (patch.diff + demo.c): the patch applies to /repo's tree, the
repository's suite passes with it, the demo passes with and without it; then runs the named property's check and every
check whose engine exercises the touched files against the patched scratch tree.  Every check must exit 0: an alarm here is
a false alarm of the machinery (or an author's mistake - to be decided by reading the replay).  Results go to
/verif/benign/<name>/meta.json."""
import sys, os, subprocess, shutil, tempfile, json, time, re

VERIF = os.path.dirname(os.path.dirname(os.path.abspath(__file__)))
sys.path.insert(0, os.path.join(VERIF, "tools"))
from seeded import sh, scratch, build_and_demo

RELATED = [
    (r"src/(GC|Alloc)\.c", ["C01", "C06", "C17", "C19", "C05", "C12", "C13"]),
    (r"src/Table\.c", ["C02", "C05", "C10", "C12", "C18", "C19"]),
    (r"src/Tree\.c", ["C03", "C05", "C10", "C12", "C18", "C19"]),
    (r"src/(Array|List|Tuple)\.c", ["C04", "C05", "C10", "C12", "C18", "C19"]),
    (r"src/Exception\.c|include/Cello\.h", ["C07", "C13", "C18", "C12"]),
    (r"src/Type\.c", ["C08", "C12", "C19", "C13", "C18"]),
    (r"src/String\.c", ["C16", "C12", "C18", "C19", "C10"]),
    (r"src/File\.c", ["C20"]),
    (r"src/Thread\.c", ["C13", "C06"]),
    (r"src/(Num|Hash|Cmp|Assign|Show|Get|Push|Concat|Resize|Iter)\.c", ["C10", "C03", "C04", "C02", "C16", "C12", "C18"]),
]

def main():
    src, name, prop = sys.argv[2], sys.argv[3], sys.argv[4]
    patch = os.path.join(src, "patch.diff"); demo = os.path.join(src, "demo.c")
    ptxt = open(patch).read()
    props = [prop]
    for rx, ps in RELATED:
        if re.search(r"^\+\+\+ b/(%s)" % rx, ptxt, re.M):
            for p in ps:
                if p not in props: props.append(p)
    out = {"name": name, "property": prop, "kind": "behaviour-preserving change written by an independent sub-agent given only the property text",
           "checked": time.strftime("%Y-%m-%d %H:%M"), "checks_run": props}
    notes = os.path.join(src, "NOTES.md")
    if os.path.exists(notes): out["author_notes"] = open(notes).read()[:3000]
    clean, _ = scratch(); bad, err = scratch(patch)
    if not bad:
        print("PATCH DOES NOT APPLY:\n" + err); shutil.rmtree(clean, ignore_errors=True); return 1
    try:
        b = sh([os.path.join(VERIF, "tools", "baseline.sh"), bad])
        out["suite_with_patch"] = b.stdout.strip().splitlines()[0] if b.stdout.strip() else "?"
        dc = build_and_demo(clean, demo); db = build_and_demo(bad, demo)
        out["demo_without_patch"] = dc.strip().splitlines()[-2:]; out["demo_with_patch"] = db.strip().splitlines()[-2:]
        out["demo_passes_both"] = ("exit=0" in dc) and ("exit=0" in db)
        res = {}
        tmpout = tempfile.mkdtemp(prefix="cello-benign-out-")
        for p in props:
            env = dict(os.environ, CELLO_REPO=bad, VERIF_OUT=tmpout)
            r = sh([os.path.join(VERIF, "check"), p, "--tier", "quick", "--min-budget", "60"], env=env)
            v = [l for l in r.stdout.splitlines() if l.startswith("VIOLATION") or l.startswith("INFRA")]
            res[p] = {"rc": r.returncode, "lines": [re.sub(r"replay=\S+ ", "", l)[:200] for l in v][:6]}
            if r.returncode != 0:
                keep = os.path.join(VERIF, "benign", name, "alarms"); os.makedirs(keep, exist_ok=True)
                for l in v:
                    m = re.search(r"replay=(\S+)", l)
                    if m and os.path.exists(m.group(1)): shutil.copy(m.group(1), keep)
        shutil.rmtree(tmpout, ignore_errors=True)
        out["checks"] = res
        out["alarms"] = [p for p in props if res[p]["rc"] != 0]
        dst = os.path.join(VERIF, "benign", name); os.makedirs(dst, exist_ok=True)
        shutil.copy(patch, os.path.join(dst, "patch.diff")); shutil.copy(demo, os.path.join(dst, "demo.c"))
        json.dump(out, open(os.path.join(dst, "meta.json"), "w"), indent=1)
        print("%s: suite=%s demo_passes_both=%s alarms=%s" % (name, out["suite_with_patch"], out["demo_passes_both"], out["alarms"]))
        for p in props:
            if res[p]["rc"] != 0: print("   %s rc=%d %s" % (p, res[p]["rc"], res[p]["lines"][:3]))
    finally:
        shutil.rmtree(clean, ignore_errors=True); shutil.rmtree(bad, ignore_errors=True)
    return 0

if __name__ == "__main__":
    sys.exit(main())
