#!/usr/bin/env python3
import json, sys, glob, os
try:
    import jsonschema
except ImportError:
    sys.path.insert(0, "/opt/veriftools/pyvenv/lib/python3.11/site-packages")
    import jsonschema
V = os.path.dirname(os.path.dirname(os.path.abspath(__file__)))
jsonschema.validate(json.load(open(V + "/MANIFEST.json")), json.load(open("/root/.vp/MANIFEST.schema.json")))
print("MANIFEST.json valid")
es = json.load(open("/root/.vp/EVIDENCE.schema.json"))
for f in sorted(glob.glob(V + "/evidence/*.json")):
    jsonschema.validate(json.load(open(f)), es); print(os.path.basename(f), "valid")
