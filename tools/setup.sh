#!/bin/sh
# Offline setup: check the toolchain; everything that depends on /repo is rebuilt by each check.
set -e
cd "$(dirname "$0")/.."
for t in gcc clang python3 make; do command -v $t >/dev/null || { echo "missing tool: $t"; exit 1; }; done
python3 -c "import json,sys; json.load(open('MANIFEST.json'))"
mkdir -p evidence replays .build
./check build plain,asan >/dev/null
echo "setup ok"
