"""Per-property configuration of the simulation checks (budgets are in runs, not seconds)."""

# name -> (build flavour, extra cflags)
CONFIGS = {
    "plain":      ("plain", []),
    "asan":       ("asan", []),
    "fine":       ("fine", []),
    "o0":         ("o0", []),
    "o2":         ("o2", []),
    "o3":         ("o3", []),
    "ndebug-o1":  ("plain", ["-DCELLO_NDEBUG"]),
    "ndebug-o2":  ("o2", ["-DCELLO_NDEBUG"]),
    "ndebug-o0":  ("o0", ["-DCELLO_NDEBUG"]),
    "ndebug-o3":  ("o3", ["-DCELLO_NDEBUG"]),
    "nocache-o1": ("plain", ["-DCELLO_CACHE=0"]),
    "nocache-o2": ("o2", ["-DCELLO_CACHE=0"]),
    "nocache-o0": ("o0", ["-DCELLO_CACHE=0"]),
    "nocache-o3": ("o3", ["-DCELLO_CACHE=0"]),
    "ngc-o1":     ("plain", ["-DCELLO_NGC"]),
    "ngc-o2":     ("o2", ["-DCELLO_NGC"]),
    "ngc-o0":     ("o0", ["-DCELLO_NGC"]),
    "ngc-o3":     ("o3", ["-DCELLO_NGC"]),
}

# known-finding triggers the generators steer around (bit set, see scen_containers.c KF_*)
AVOID_KF = 0

def _cont(focus, quick, thorough, asan_frac=6, extra_env=None):
    def stages(tier):
        n = quick if tier == "quick" else thorough
        env = {"focus": focus, "avoid_kf": AVOID_KF}
        if extra_env: env.update(extra_env)
        return [
            {"scen": "containers", "env": env, "runs": n, "configs": ["plain"]},
            {"scen": "containers", "env": env, "runs": max(200, n // asan_frac), "configs": ["asan"], "first": 10_000_000},
        ]
    return stages

def _heap(focus, quick, thorough, asan_frac=6, extra_env=None):
    def stages(tier):
        n = quick if tier == "quick" else thorough
        env = {"focus": focus, "avoid_kf": AVOID_KF_HEAP}
        if extra_env: env.update(extra_env)
        return [
            {"scen": "heap", "env": env, "runs": n, "configs": ["plain"], "chunk": 25},
            {"scen": "heap", "env": env, "runs": max(150, n // asan_frac), "configs": ["asan"], "first": 10_000_000, "chunk": 25},
        ] + ([{"scen": "heap", "env": env, "runs": max(300, n // 8), "configs": ["o0"], "first": 20_000_000, "chunk": 25}] if focus == 1 else []
        ) + ([{"scen": "heap", "env": dict(env, enum=1), "runs": 26 * (60 if tier == "quick" else 2500), "configs": ["plain"], "first": 60_000_000, "chunk": 26}] if focus in (1, 6) else [])
    return stages
AVOID_KF_HEAP = 0

COMMON_ASSUME = ["sequential consistency inside one thread", "reference-model semantics as in DESIGN.md appendix A",
                 "aliasing arguments, mutation during iteration and in-place key mutation are outside the workload"]
GEN = ("one evaluation = one seeded plan executed in a fresh process on a fixed-address stack and a seeded fixed-address arena "
       "(placement bump/LIFO/quarantine/seeded, realloc move/in-place/seeded, 0xA5/0xDD fills), a third of the containers "
       "collector-managed with allocation-pressure bursts; the reference model is compared after every operation. ")

PROPS = {
    "C02": {
        "level": "exploration",
        "rule": "one evaluation = one seeded plan (1-4 Tables, Int/String/Tok keys drawn from pools whose hashes collide modulo "
                "5*11*23*53[*101]; set/rem/get/mem/resize/assign/copy/swap in fill/drain/mix phases; seeded allocator placement, "
                "realloc-move and fill policies; a third of the Tables collector-managed with allocation-pressure bursts) executed "
                "against a reference association list that is compared after every operation. Non-trivial = the run updated a key "
                "that was displaced from its home slot, rehashed up and down, and had a probe sequence wrap around slot 0; "
                "distinct = distinct event-trace hashes.",
        "stages": _cont(2, 20000, 600_000, 10),
        "rare_probes": ["elem.string_edited_in_place", "bad.injected", "new.plain_struct_elems", "table.update_displaced", "table.rehash_up", "table.rehash_down", "table.probe_wrapped", "table.resize0", "map.absent_get", "map.absent_rem"],
        "assumptions": ["sequential consistency inside one thread", "reference model semantics as in DESIGN.md appendix A",
                        "self-assignment, mutation during iteration and in-place key mutation are outside the workload"],
    },
    "C03": {
        "level": "exploration",
        "rule": GEN + "Trees over Int keys spanning the whole int64 range, String and call-counting CKey keys, driven through ascending / "
                "descending / drain / mixed phases; after every operation len, mem, get, KeyError, strictly monotone forward iteration, "
                "exact-reverse backward iteration and red-black validity (root black, no red-red, equal black height, parent links, "
                "node count, height <= 2*log2(n+1)) through the read-only accessor hook. Non-trivial = the run exercised at least 3 "
                "distinct removal-repair situations (classified from the tree shape just before each rem); distinct = distinct trace hashes.",
        "stages": _cont(3, 20000, 600_000, 10),
        "rare_probes": ["elem.string_edited_in_place", "bad.injected", "new.plain_struct_elems", "tree.rem_root", "tree.rem_two_children", "tree.fix_red_sibling", "tree.fix_black_sib_red_parent",
                        "tree.fix_black_sib_black_parent", "tree.fix_far_nephew_red", "tree.fix_near_nephew_red", "tree.rem_black_one_child"],
        "assumptions": COMMON_ASSUME,
    },
    "C04": {
        "level": "exploration",
        "rule": GEN + "Array / List / Tuple over Int, Float, String, Tok, CKey elements (Tuple: distinct harness-owned objects): push, pop, "
                "push_at, pop_at, set, get, rem, mem, concat, append, resize, sort, sort_by, assign, copy with positive and negative "
                "indices; after every operation len, get(i), get(i-len), iteration and mem against a reference C array; after sort "
                "sortedness + multiset equality. Non-trivial = the run crossed >= 2 Array growths and >= 1 shrink of the backing store "
                "and used negative indices on >= 3 operation kinds; distinct = distinct trace hashes.",
        "stages": _cont(4, 20000, 600_000, 10),
        "rare_probes": ["elem.string_edited_in_place", "bad.injected", "new.plain_struct_elems", "seq.array_grow", "seq.array_shrink", "seq.neg_get", "seq.neg_set", "seq.neg_pop_at", "seq.neg_push_at",
                        "seq.sort_with_duplicates", "seq.rem_duplicate", "seq.concat_cross", "seq.resize_pad", "seq.resize_reserve"],
        "assumptions": COMMON_ASSUME + ["push_at with a negative index is checked weakly (inserted once, others keep order)",
                                       "resize(n > len) may reserve or pad with zero elements"],
    },
    "C05": {
        "level": "exploration",
        "rule": GEN + "2-4 containers of different kinds alive at once whose element / key / value type is the probe type Tok (own "
                "constructor, assign, destructor, owns a malloc'ed payload); every live token must be visible at exactly one place after "
                "every operation, live tokens == sum of lengths, no double / unknown finalisation, copies and assignments deep, zero live "
                "tokens after everything was deleted. A second pair of stages runs the heap engine with Box -> object and Box -> Box -> object "
                "ownership chains deleted explicitly, collected, swept together with what they own and torn down, judged by the exactly-once "
                "object ledger. Non-trivial = Tok run with >= 2 of {rehash, Tree two-children removal, sort, "
                "cross-kind assign, copy}; distinct = distinct trace hashes.",
        "stages": lambda tier: _cont(5, 20000, 600_000, 10)(tier) + [
            # the Box clause: ownership chains through Box in the heap engine, judged by the exactly-once ledger under C05's name
            {"scen": "heap", "env": {"focus": 5, "avoid_kf": AVOID_KF_HEAP}, "runs": 2000 if tier == "quick" else 60_000, "configs": ["plain"], "first": 40_000_000, "chunk": 25},
            {"scen": "heap", "env": {"focus": 5, "avoid_kf": AVOID_KF_HEAP}, "runs": 300 if tier == "quick" else 6_000, "configs": ["asan"], "first": 50_000_000, "chunk": 25}],
        "rare_probes": ["table.rehash_up", "table.rehash_down", "tree.rem_two_children", "seq.sort", "assign.cross_kind", "copy", "c10.swaps"],
        "assumptions": COMMON_ASSUME + ["List.resize(n > len) is not applied to Tok lists (it creates never-constructed elements)"],
    },
    "C10": {
        "level": "exploration",
        "rule": GEN + "History-dependent half of the property only: pairs of containers driven to the same abstract content by different "
                "histories (other insertion order, extra keys inserted and removed, reserved capacity, other container kind, copy, assign) "
                "must be eq in both directions and hash equally; swap must exchange the two model values. Non-trivial = >= 2 pairs "
                "compared in the run; distinct = distinct trace hashes. The pure value-level clause (hash_data vs MurmurHash, scalar "
                "corner values alone) is not claimed here.",
        "stages": _cont(10, 20000, 600_000, 10),
        "rare_probes": ["c10.unaligned_strings", "c10.value_swaps", "c10.pairs", "c10.twins", "c10.swaps", "copy", "assign", "assign.cross_kind"],
        "assumptions": COMMON_ASSUME,
    },
    "C12": {
        "level": "fault_enumeration",
        "rule": GEN + "At states reached by the container workloads every kind of invalid call is injected (index == len, -len-1, far out, "
                "INT64_MAX/MIN; pop on empty; absent key / element; wrong-typed key or value; NULL; unimplemented class; resize a "
                "container cannot honour; too few format arguments): the call must raise an exception of the documented set, the "
                "canonical dump (len, every element by get and by iteration) and the element ledger must be unchanged, and the model "
                "must keep agreeing over the valid operations that follow. Non-trivial = >= 5 distinct invalid-call kinds injected in "
                "the run at states of size >= 2; distinct = distinct trace hashes.",
        # + collector-managed objects whose constructor fails (new(Table, K, V, k) with an odd argument count, Range with too many
        # arguments, ...): the half-built object is registered, and later collections, deletions and the teardown must cope
        "stages": lambda tier: _cont(12, 20000, 600_000, 10)(tier) + [
            {"scen": "heap", "env": {"focus": 12, "avoid_kf": AVOID_KF_HEAP}, "runs": 2500 if tier == "quick" else 60_000, "configs": ["plain"], "first": 40_000_000, "chunk": 25},
            {"scen": "heap", "env": {"focus": 12, "avoid_kf": AVOID_KF_HEAP}, "runs": 400 if tier == "quick" else 8_000, "configs": ["asan"], "first": 45_000_000, "chunk": 25}],
        "rare_probes": ["bad.stack-tuple-assign", "bad.stack-tuple-assign-from-filter", "bad.del-embedded", "heap.failed_constructor", "bad.injected", "bad.get-out-of-range", "bad.push_at-out-of-range", "bad.pop-empty", "bad.rem-absent",
                        "bad.set-wrong-key-type", "bad.set-wrong-value-type", "bad.get-null-key", "bad.resize-below-len",
                        "bad.resize-tree-nonzero", "bad.resize-tuple-grow", "bad.unimplemented-class"],
        "assumptions": COMMON_ASSUME + ["default (checked) build only", "Tuple rem of an absent element is only checked for 'unchanged'"],
    },
    "C16": {
        "level": "exploration",
        "rule": GEN + "Heap Strings: assign, concat, append, resize (grow / shrink / 0), rem (operand at start, middle, end, whole, empty, "
                "absent), mem, print_to at positions <= len; every realloc may move and new tails are garbage-filled; after every "
                "operation c_str/len/cmp/eq/hash/mem against a libc-maintained reference buffer and the NUL must lie inside the block "
                "(arena ledger; ASan red zones). Non-trivial = >= 1 rem in the middle and >= 1 grow after a shrink; distinct = distinct "
                "trace hashes.",
        "stages": _cont(16, 24000, 700_000, 10),
        "rare_probes": ["bad.assign-no-c_str", "str.rem_middle", "str.rem_absent", "str.grow_after_shrink", "str.shrink", "str.reserve", "str.print_to"],
        "assumptions": COMMON_ASSUME,
    },
    "C01": {
        "level": "exploration",
        "rule": "one evaluation = one seeded heap-mutation plan (Nodes, Ref, Box, Array/List/Tuple of refs, Table/Tree with refs as keys or values; "
                "roots = stack slots, root-registered holders, thread-local entries; links, unlinks, root drops, explicit dels, copies, chains) "
                "mirrored by a shadow graph; collections happen only through the shipped threshold path, provoked by allocation-pressure bursts "
                "placed by the plan, under seeded allocator placement (incl. adversarial, all registry slots colliding). An enumeration stage runs "
                "families of 26 plans that share one short base plan: members 0..12 place one burst after operation v (every collection point "
                "in turn), members 13..25 cut the plan after v-13 operations (every teardown point in turn). After every operation "
                "every object the shadow graph reaches must be un-finalised, its block live, its canary intact. Non-trivial = at least one "
                "collection proven (a garbage object was released) while an object was reachable only through a non-stack path; distinct = distinct trace hashes.",
        "stages": _heap(1, 4000, 120_000, 10),
        "rare_probes": ["heap.array_of_nodes_store", "heap.array_of_nodes_assign", "heap.constructor_allocates", "gc.primed_ops", "heap.deep_copy", "heap.deep_copy_children", "heap.destructor_allocations", "heap.box_owns_root", "heap.register_root", "heap.tls_set", "heap.new_root", "heap.link_mapkey", "heap.link_mapval", "heap.link_seq", "heap.copy", "heap.max_chain", "heap.container_clear"],
        "assumptions": ["never asserts that something unreachable was collected", "no interior pointers, no pointers in unscanned malloc memory, no cross-thread reachability",
                        "objects allocated while the collector is stopped and raw objects keep nothing alive"],
    },
    "C06": {
        "level": "exploration",
        "rule": "heap-mutation plans as for C01 plus ownership links (Box -> object, Box -> Box -> object), new/new_root/new_raw, del/del_root/del_raw, "
                "stop(gc)..start(gc) windows with allocations and deletions inside, forced and threshold collections; every plan ends with the "
                "program-exit teardown (Cello_Exit) - plan length is seeded, so the teardown point varies. Object ledger (destructor of the probe "
                "type) + allocator block ledger: every managed object finalised exactly once and its block released exactly once by teardown, no "
                "block released without its destructor, nothing managed left behind. Non-trivial = a collection proven (a garbage object released), "
                "a Box ownership link or a stop/start window in the plan, and objects released by the teardown; "
                "distinct = distinct trace hashes.",
        "stages": _heap(6, 4000, 120_000, 10),
        "rare_probes": ["heap.program_exit_runs", "gc.primed_ops", "heap.destructor_allocations", "heap.box_owns_root", "heap.owned_dies_with_swept_owner", "heap.failed_constructor", "heap.new_box", "heap.new_box_chain", "heap.del_box", "heap.del_root", "heap.del_raw", "heap.stop", "heap.new_while_stopped",
                        "heap.del_while_stopped", "heap.del_unregistered", "heap.freed_at_teardown"],
        "assumptions": ["roots the plan did not del_root and raw objects it did not del_raw are expected to survive", "deleting an object that a live Box still owns is outside the workload",
                        "only the blocks of ledger objects gate; other arena blocks alive after teardown are diagnostics"],
    },
    "C17": {
        "level": "exploration",
        "rule": "heap-mutation plans as for C01/C06 with the allocator mostly in adversarial placement (every object address congruent modulo "
                "5*11*23*53[*101[*197]], home slot = last slot, so registry probe sequences collide and wrap at every size) and LIFO address reuse; "
                "after every operation mem(current(GC), p) is compared with the ledger for every object ever seen (live and dead), and through the "
                "read-only accessor hook: each registered object once, root flag as allocated, count matches, no mark left set. Non-trivial = a "
                "collection proven and the registry rehashed up >= 3 times and down >= 1 time in the run; distinct = distinct trace hashes.",
        "stages": _heap(17, 4000, 200_000, 10),
        "rare_probes": ["heap.box_owns_root", "heap.owned_dies_with_swept_owner", "heap.destructor_allocations", "reg.grow", "reg.shrink", "reg.probe_wrapped", "heap.del", "heap.del_root", "heap.del_box"],
        "assumptions": ["an object deleted while the collector is stopped may stay registered until a later collection"],
    },
    "C19": {
        "level": "fault_enumeration",
        "rule": "container plans (focus 19) and heap plans: every object handed out (new, new_root, new_raw, alloc, copy, elements by get and by "
                "iteration, map values) must carry its true type, the expected allocation class and size(type) usable bytes; wrong "
                "deallocations / in-place growth are injected on stack, static and container-embedded objects (dealloc, del, del_raw, destruct, "
                "resize, concat, assign, push, pop, pop_at) and must raise ResourceError or ValueError and leave the object intact; the arena "
                "ledger reports any free of a non-heap pointer and any double free. Non-trivial = >= 2 wrong deallocations injected in the run; "
                "distinct = distinct trace hashes.",
        "stages": lambda tier: _cont(19, 3000, 300_000, 10)(tier) + _heap(19, 3000, 80_000, 10)(tier),
        "rare_probes": ["bad.assign-stack-tuple", "bad.assign-stack-tuple-from-filter", "heap.stop", "heap.del_while_stopped", "bad.dealloc-embedded", "bad.dealloc-stack-int", "bad.del_raw-stack-string", "bad.dealloc-static-type",
                        "bad.destruct-stack-tuple", "bad.pop_at-stack-tuple", "bad.resize-stack-string"],
        "assumptions": ["default (checked) build only"],
    },
    "C07": {
        "level": "exploration",
        "rule": "one evaluation = one seeded try/catch/throw program tree (<= 40 statements per thread, nesting <= 6: up to three try constructs "
                "written lexically inside one C function plus dynamic nesting through calls; catch filters of arity 0-3 over 6 built-in error "
                "objects; throws from bodies, called functions, genuine library calls and handlers; sequences of constructs) executed through "
                "the real try/catch/throw macros in the main thread and, in a quarter of the runs, one tree per Cello worker thread under the "
                "seeded baton scheduler; each throw is the injected fault. A reference interpreter of the same tree predicts every event "
                "(statement, throw, handler entered with which object, statement after each construct, end / uncaught); the real run is "
                "compared event by event, nesting depth is compared around every construct, and programs predicted to end uncaught run in a "
                "child process that must exit with failure and name the exception on stderr. Non-trivial = the tree contains an inner handled "
                "exception followed by normal completion of an enclosing body, or a throw from a handler; distinct = distinct trace hashes.",
        "stages": lambda tier: [
            {"scen": "exc", "env": {}, "runs": 40000 if tier == "quick" else 2_000_000, "configs": ["plain"], "timeout": 30},
            {"scen": "exc", "env": {}, "runs": 4000 if tier == "quick" else 200_000, "configs": ["asan"], "first": 10_000_000, "timeout": 30},
        ],
        "rare_probes": ["exc.filter_cmp_with_try", "exc.throw_twin", "exc.show_with_exception", "exc.destructor_with_exception", "exc.throw_at_collection_point", "exc.garbage_objects", "exc.outer_completes_after_inner_handled", "exc.throw_in_handler", "exc.lexical_nesting", "exc.lexical_nesting3",
                        "exc.throw_from_library", "exc.uncaught_programs", "exc.thread_programs"],
        "assumptions": ["return/goto out of a try block and signals are outside the workload", "the model does not look at messages"],
    },
    "C20": {
        "level": "fault_enumeration",
        "rule": "one evaluation = one seeded plan over 3 File objects and 4 in-memory files behind --wrap=fopen,fclose (+ guards on fread/fwrite/"
                "fseek/ftell/fflush/feof/vfprintf/vfscanf): byte strings with zero bytes and chunk lengths 0..3*BUFSIZ, swrite/sread, print_to/"
                "scan_from, sseek with the three origins, stell, seof, sflush, sopen on open Files (reopen), File(name, mode) construction, with "
                "blocks, del, and every operation also on Files that are not open. Fault-free stage (short reads only, which are legal): bytes "
                "read == bytes written, stell == harness byte count, seof as the model, every successful open closed exactly once, IOError on "
                "closed Files without stdio ever seeing a NULL or closed stream. Fault stage (run separately): at the k-th cookie callback of an "
                "operation a read error, write error (EIO/ENOSPC), failing seek, failing fopen or failing fclose is injected; the operation may "
                "raise IOError only, a stream is never closed twice nor used after its fclose, and a File whose fclose failed counts as closed. "
                "Non-trivial = >= 1 seek, >= 1 reopen and >= 1 operation after close in the run; distinct = distinct trace hashes.",
        "stages": lambda tier: [
            {"scen": "files", "env": {"faults": 0}, "runs": 15000 if tier == "quick" else 800_000, "configs": ["plain"]},
            {"scen": "files", "env": {"faults": 1}, "runs": 15000 if tier == "quick" else 800_000, "configs": ["plain"], "first": 5_000_000},
            {"scen": "files", "env": {"faults": 0}, "runs": 800 if tier == "quick" else 100_000, "configs": ["asan"], "first": 10_000_000},
            {"scen": "files", "env": {"faults": 1}, "runs": 800 if tier == "quick" else 100_000, "configs": ["asan"], "first": 15_000_000},
            # fault enumeration proper: every fault kind at every operation of short base plans (96 members per family)
            {"scen": "files", "env": {"enum": 1}, "runs": 96 * (60 if tier == "quick" else 3000), "configs": ["plain"], "first": 60_000_000, "chunk": 96},
        ],
        "rare_probes": ["file.seek_on_append_stream", "file.print_long_piece", "file.reopen", "file.op_after_close", "file.with", "file.del", "file.scan", "file.read_to_eof", "file.seek_origin0",
                        "file.seek_origin1", "file.seek_origin2", "io.fault_fired", "io.fault_raised_ioerror", "io.close_fault", "io.short_read"],
        "assumptions": ["glibc stdio over fopencookie is the trusted C library view", "a legal short write that stdio retries cannot be produced through fopencookie and is not claimed",
                        "after an injected fault the content of that file and the position of that stream are no longer compared"],
    },
    "C13": {
        "level": "exploration",
        "rule": "one evaluation = one seeded plan for 2-16 real Cello threads (own stack, own collector, own exception record) serialised by the "
                "baton scheduler behind pthread_create/join/mutex_*/getspecific plus guarded yield hooks inside Type.c/GC.c/Exception.c: each "
                "thread runs 1-4 workloads (container work, allocation-heavy work causing collections in its own collector, nested try/catch, "
                "thread-local set/get/rem under shared key names, lock / trylock / with sections around a non-atomic counter and an in-section "
                "flag); the schedule is either a handful of seeded pre-emption points (PCT style) or chaos (switch with probability 1/d at every "
                "yield point); join order is seeded. A further stage runs the 'fine' build, in which /repo is compiled with -fsanitize=thread "
                "and the instrumentation calls are bound to the scheduler instead of the TSan runtime, so every load/store of non-stack memory "
                "inside the library is a scheduling point. Oracles: every workload digest equals the digest of the same workload run alone; no object "
                "finalised by another thread's collector; handlers see exactly the exception their own thread threw; TLS values private; "
                "immediately after join the thread has finished and its result is readable; critical sections never overlap, no lost update; "
                "no deadlock; each thread's teardown finalises all of its objects. The exceptions engine adds one try/catch tree per thread. "
                "Non-trivial = >= 2 context switches at library-internal yield points and >= 2 threads doing allocation-heavy work; "
                "distinct = distinct trace hashes (the trace records every context switch).",
        "stages": lambda tier: [
            {"scen": "threads", "env": {}, "runs": 3000 if tier == "quick" else 250_000, "configs": ["plain"], "timeout": 60, "chunk": 20},
            {"scen": "threads", "env": {}, "runs": 500 if tier == "quick" else 30_000, "configs": ["asan"], "first": 10_000_000, "timeout": 90, "chunk": 10},
            {"scen": "exc", "env": {"threads": 3}, "runs": 1500 if tier == "quick" else 300_000, "configs": ["plain"], "first": 20_000_000, "timeout": 30},
            # memory-access granularity: /repo compiled with -fsanitize=thread, every non-stack load/store is a scheduling point
            {"scen": "threads", "env": {}, "runs": 1500 if tier == "quick" else 120_000, "configs": ["fine"], "first": 30_000_000, "timeout": 90, "chunk": 20},
            {"scen": "exc", "env": {"threads": 3}, "runs": 1500 if tier == "quick" else 150_000, "configs": ["fine"], "first": 40_000_000, "timeout": 60},
        ],
        "rare_probes": ["thr.main_collects_while_workers_run", "thr.trylock_failed_then_lock", "thr.main_in_section_at_start", "thr.join_before_finish", "thr.join_after_finish", "thr.trylock_spins", "thr.alloc_threads", "sched.lib_switches", "sched.switches", "exc.thread_programs"],
        "assumptions": ["interleaving granularity is the yield point under sequential consistency; weak-memory effects are not simulated",
                        "stop(thread) (signal based) and objects handed between threads are outside the workload"],
    },
    "C08": {
        "level": "exploration",
        "rule": "one evaluation = one seeded plan: 1-3 run-time types created with new(Type, ...) holding 0-256 instances (seeded mix of the 30 "
                "built-in classes and up to 256 run-time classes, shuffled, some members left empty, members are tripwire functions), then "
                "seeded orders of single lookups, full sweeps over every class (cold, then warm, then re-cooled by writing NULL through the "
                "public record layout), casts, and concurrent sweeps by 2-16 Cello threads against a freshly cooled type under the baton "
                "scheduler in chaos mode with yield hooks inside the cache fill, the class memo store and the lazy header store. Each (type, "
                "class, member) triple goes through instance, type_instance, implements, type_implements, method_at_offset, "
                "type_method_at_offset, implements_method_at_offset, type_implements_method_at_offset and is compared with an independent scan "
                "of the raw record by class name; absent classes / empty members must raise ClassError, cast to another type ValueError, no "
                "member may be invoked. 39 built-in types take part in every plan. Non-trivial = >= 1 context switch inside a cache fill / memo / "
                "lazy-header window and a type with > 18 instances; distinct = distinct trace hashes.",
        "stages": lambda tier: [
            {"scen": "dispatch", "env": {}, "runs": 2500 if tier == "quick" else 50_000, "configs": ["plain"], "timeout": 60, "chunk": 20},
            {"scen": "dispatch", "env": {}, "runs": 400 if tier == "quick" else 6_000, "configs": ["asan"], "first": 10_000_000, "timeout": 90, "chunk": 10},
            {"scen": "dispatch", "env": {}, "runs": 600 if tier == "quick" else 15_000, "configs": ["fine"], "first": 20_000_000, "timeout": 90, "chunk": 10},
        ],
        "rare_probes": ["disp.repeated_class_declarations", "disp.same_named_types", "disp.casts_to_same_named_type", "disp.types_replaced", "sched.sw_in_cache_fill", "sched.sw_in_class_memo", "sched.sw_in_lazy_header", "disp.concurrent_sweeps", "disp.empty_member",
                        "disp.missing_class", "disp.cooled", "disp.casts", "disp.max_instances", "disp.max_threads"],
        "assumptions": ["the benign same-value races on cache slots are not reported as data races (a serialising scheduler hides them from TSan anyway)",
                        "Terminal is excluded: it ends every argument tuple, so it cannot be passed as the type of an error message"],
    },
    "C18": {
        "level": "other",
        "explanation": "Differential replay: the same seeded in-contract plan (no error path: no absent keys, no invalid calls, no library-raised "
                "exceptions) is executed by one simulator binary per build configuration - default, CELLO_NDEBUG, method cache disabled "
                "(CELLO_CACHE=0), CELLO_NGC, each at several optimisation levels, harness compiled with the same switches because the header "
                "layout changes. Container/String plans emit a transcript (every length, every element read by get and by iteration, ordered "
                "Tree iteration, mem results, formatted strings, String contents); its hash and line count must be identical in every "
                "configuration, and every configuration must also agree with the reference model (a model violation in one configuration is a "
                "divergence). Exception-tree plans (user-level throw/catch only) must produce the same event trace hash everywhere. quick: 7 "
                "configurations; thorough: 14 (the last one is the clang AddressSanitizer+UBSan build: an in-contract program that reads or "
                "writes outside its objects is one whose result depends on the build).",
        "rule": "one evaluation = one plan executed under one configuration; non-trivial = the plan created >= 2 containers/strings (containers "
                "stage) or contains an inner handled exception / throw from a handler (exceptions stage); distinct = distinct trace hashes.",
        "stages": lambda tier: (
            [{"scen": "containers", "env": {"focus": 18, "avoid_kf": AVOID_KF}, "runs": 2500 if tier == "quick" else 40_000, "configs": [c],
              "differential": True} for c in (["plain", "o0", "ndebug-o2", "nocache-o2", "ngc-o2", "o3", "asan"] if tier == "quick" else
              ["plain", "o0", "o2", "o3", "ndebug-o0", "ndebug-o2", "ndebug-o3", "nocache-o0", "nocache-o2", "nocache-o3", "ngc-o0", "ngc-o2", "ngc-o3", "asan"])] +
            [{"scen": "exc", "env": {"threads": 0, "nolib": 1}, "runs": 2500 if tier == "quick" else 40_000, "configs": [c], "first": 30_000_000, "timeout": 30,
              "differential": True, "diff_keys": ["verdict", "hash"]} for c in (["plain", "ndebug-o2", "nocache-o2", "ngc-o2", "o3"] if tier == "quick" else
              ["plain", "o0", "o2", "o3", "ndebug-o0", "ndebug-o2", "ndebug-o3", "nocache-o0", "nocache-o2", "nocache-o3", "ngc-o0", "ngc-o2", "ngc-o3"])] +
            # type-class dispatch histories (lookups, cooling, types deleted / replaced / redefined in place): the method cache is the one
            # piece of state that only some configurations have
            [{"scen": "dispatch", "env": {}, "runs": 300 if tier == "quick" else 6000, "configs": [c], "first": 90_000_000, "timeout": 90,
              "differential": True, "diff_keys": ["verdict"]} for c in ["plain", "nocache-o2", "ndebug-o2"]] +
            # collector-dependent programs (roots on the stack, in root holders and in thread-local storage; collections): every
            # configuration that has a collector must reach the same verdict from the reference oracles
            [{"scen": "heap", "env": {"focus": 1, "avoid_kf": AVOID_KF_HEAP}, "runs": 800 if tier == "quick" else 20_000, "configs": [c], "first": 70_000_000, "chunk": 25,
              "differential": True, "diff_keys": ["verdict"]} for c in (["plain", "ndebug-o2", "nocache-o2", "o3"] if tier == "quick" else
              ["plain", "o0", "o3", "ndebug-o0", "ndebug-o2", "nocache-o0", "nocache-o2", "nocache-o3"])] +
            # exception trees inside worker threads: every configuration must let each thread handle its own exceptions
            [{"scen": "exc", "env": {"threads": 2, "nolib": 1}, "runs": 800 if tier == "quick" else 30_000, "configs": [c], "first": 80_000_000, "timeout": 30,
              "differential": True, "diff_keys": ["verdict"]} for c in (["plain", "ndebug-o2", "nocache-o2", "ngc-o2", "o3"] if tier == "quick" else
              ["plain", "o0", "o3", "ndebug-o2", "nocache-o2", "ngc-o0", "ngc-o2", "ngc-o3"])]),
        "rare_probes": ["elem.string_edited_in_place", "new.seq", "new.table", "new.tree", "new.string", "seq.sort", "copy", "assign", "str.print_to", "exc.outer_completes_after_inner_handled",
                        "view.iterated", "heap.tls_set", "exc.thread_programs"],
        "assumptions": ["only in-contract programs: error paths behave differently under CELLO_NDEBUG by design", "addresses and Table iteration order are excluded from transcripts"],
    },
}
