#!/bin/sh
# Runs the repository's own test suite (make check) with the CELLO_VERIF guard OFF
# on a scratch copy of a tree (default: /repo's working tree), prints pass/fail counts.
# usage: baseline.sh [tree-dir]
SRC=${1:-/repo}
T=$(mktemp -d "${TMPDIR:-/tmp}/cello-baseline.XXXXXX") || exit 2
trap 'rm -rf "$T"' EXIT INT TERM
(cd "$SRC" && tar --exclude=./obj --exclude=./.git --exclude='*.a' --exclude='*.so' --exclude=./tests/test -cf - .) | tar -xf - -C "$T"
cd "$T" || exit 2
make check > make.log 2>&1
rc=$?
p=$(grep -c 'Passed!' make.log)
f=$(grep -c 'Failed!' make.log)
echo "baseline: make_rc=$rc passed=$p failed=$f"
if [ "$rc" -ne 0 ] || [ "$f" -ne 0 ]; then tail -40 make.log; exit 1; fi
exit 0
