#!/usr/bin/env python3
"""seeded.py verify <src-dir> <name> <property> [other-props...]
Confirms an independently written breaking change (patch.diff + demo.c): the patch applies to /repo's tree, the
repository's suite still passes with it, the demo fails with it and passes without it; then runs the named property
checks against the patched scratch tree and records everything in /verif/seeded/<name>/meta.json."""
import sys, os, subprocess, shutil, tempfile, json, glob, time

VERIF = os.path.dirname(os.path.dirname(os.path.abspath(__file__)))

def sh(cmd, **kw):
    return subprocess.run(cmd, stdout=subprocess.PIPE, stderr=subprocess.STDOUT, text=True, errors="replace", **kw)

def scratch(patch=None):
    d = tempfile.mkdtemp(prefix="cello-seeded-", dir=os.environ.get("TMPDIR", "/tmp"))
    sh("cd /repo && tar --exclude=./obj --exclude=./.git --exclude='*.a' --exclude='*.so' --exclude=./tests/test -cf - . | tar -xf - -C %s" % d, shell=True)
    if patch:
        r = sh(["patch", "-p1", "-s", "-d", d, "-i", patch])
        if r.returncode != 0:
            shutil.rmtree(d, ignore_errors=True)
            return None, r.stdout
    return d, ""

def build_and_demo(tree, demo, extra=""):
    r = sh("cd %s && make -s libCello.a >/dev/null 2>&1; gcc -std=gnu99 -I include %s %s libCello.a -lpthread -lm -o demo.bin 2>&1 && (timeout 60 ./demo.bin; echo \"exit=$?\")" % (tree, extra, demo), shell=True)
    return r.stdout[-1500:]

def main():
    src, name, props = sys.argv[2], sys.argv[3], sys.argv[4:]
    patch = os.path.join(src, "patch.diff"); demo = os.path.join(src, "demo.c")
    out = {"name": name, "property": props[0], "source": "written by an independent sub-agent given only the property text", "checked": time.strftime("%Y-%m-%d %H:%M")}
    notes = os.path.join(src, "NOTES.md")
    if os.path.exists(notes): out["needs_to_manifest"] = open(notes).read()[:3000]
    clean, _ = scratch()
    bad, err = scratch(patch)
    if not bad:
        print("PATCH DOES NOT APPLY:\n" + err); shutil.rmtree(clean, ignore_errors=True); return 1
    try:
        b = sh([os.path.join(VERIF, "tools", "baseline.sh"), bad])
        out["suite_with_patch"] = b.stdout.strip().splitlines()[0] if b.stdout.strip() else "?"
        demo_custom = os.path.join(src, "run_demo.sh")
        if os.path.exists(demo_custom):
            def rd(tree):
                r = sh(["sh", demo_custom, tree], cwd=src)
                out = r.stdout[-1500:]
                return out if "exit=" in out else out + "\nexit=%d\n" % r.returncode
            dc = rd(clean); db = rd(bad)
        else:
            dc = build_and_demo(clean, demo); db = build_and_demo(bad, demo)
        out["demo_without_patch"] = dc.strip().splitlines()[-3:]
        out["demo_with_patch"] = db.strip().splitlines()[-3:]
        ok_demo = ("exit=0" in dc) and ("exit=0" not in db)
        out["demo_confirms"] = ok_demo
        caught = {}
        tmpout = tempfile.mkdtemp(prefix="cello-seeded-out-")
        for p in props:
            env = dict(os.environ, CELLO_REPO=bad, VERIF_OUT=tmpout, VERIF_NO_MINIMISE="" )
            r = sh([os.path.join(VERIF, "check"), p, "--tier", "quick", "--min-budget", "150"], env=env)
            v = [l for l in r.stdout.splitlines() if l.startswith("VIOLATION")]
            caught[p] = {"rc": r.returncode, "classes": [l.split("class=")[1].split()[0] for l in v][:6]}
            if v and p == props[0]:
                # keep the first minimised replay as illustration
                rp = v[0].split("replay=")[1].split()[0]
                if os.path.exists(rp):
                    out["replay_example"] = [l for l in open(rp).read().splitlines() if not l.startswith("#")][:25]
        shutil.rmtree(tmpout, ignore_errors=True)
        out["checks"] = caught
        out["caught_by"] = [p for p in props if caught[p]["rc"] == 1]
        dst = os.path.join(VERIF, "seeded", name)
        os.makedirs(dst, exist_ok=True)
        shutil.copy(patch, os.path.join(dst, "patch.diff")); shutil.copy(demo, os.path.join(dst, "demo.c"))
        if os.path.exists(demo_custom): shutil.copy(demo_custom, os.path.join(dst, "run_demo.sh"))
        json.dump(out, open(os.path.join(dst, "meta.json"), "w"), indent=1)
        print("%s: suite=%s demo_confirms=%s caught_by=%s" % (name, out["suite_with_patch"], ok_demo, out["caught_by"]))
        for p in props: print("   %s rc=%d %s" % (p, caught[p]["rc"], caught[p]["classes"][:3]))
    finally:
        shutil.rmtree(clean, ignore_errors=True); shutil.rmtree(bad, ignore_errors=True)
    return 0

if __name__ == "__main__":
    sys.exit(main())
