TECH = "deterministic simulation with fault injection: seeded plans executed by cellosim (fresh process per run, seeded fixed-address allocator arena, baton thread scheduler, in-memory file layer), reference-model oracle after every step, minimised replayable plans"

def _lt(engine, text, note, ref, technique=None):
    return {"engine": engine, "text": text, "note": note, "design_ref": ref, "technique": technique or TECH}

TRUST = ("Trusted: the reference models and oracles in /verif/sim, the seams (arena, scheduler, file layer), gcc/clang and glibc. "
         "Sampling, not proof: a clean batch is evidence over the explored seeds only. Interleaving granularity is the yield point under sequential consistency.")

LEVEL_TEXT = {
 "C02": _lt("containers", "Seeded exploration of Table operation histories over adversarially colliding key pools with the allocator's placement/move/fill decisions and the collection schedule owned by the simulator; a reference association list is compared after every operation. Right level because the property quantifies over histories and address/hash patterns, which sampling with chosen collisions reaches and the fixed test scripts do not.", TRUST, "DESIGN.md section 5 C02"),
 "C03": _lt("containers", "Seeded exploration of Tree insertion/removal histories (ascending, descending, drain, mixed; int64 boundary keys) with a sorted reference model and full red-black validity after every operation through a read-only accessor hook.", TRUST, "DESIGN.md section 5 C03"),
 "C04": _lt("containers", "Seeded exploration of Array/List/Tuple histories across growth and shrink boundaries with realloc-always-moves / garbage-filled tails, compared with a reference array after every operation.", TRUST, "DESIGN.md section 5 C04"),
 "C05": _lt("containers", "Seeded exploration with a probe element type whose constructor/assign/destructor keep an element ledger: every live token visible exactly once after every operation, no double/unknown finalisation, zero live tokens after deleting everything.", TRUST, "DESIGN.md section 5 C05"),
 "C10": _lt("containers", "History-dependent half only: pairs of containers brought to the same content by different histories / copy / assign must be eq and hash equally; swap exchanges the model values.", TRUST + " The pure value-level clause of C10 is not claimed.", "DESIGN.md section 5 C10"),
 "C12": _lt("containers", "Fault enumeration: every invalid-call kind is injected at states sampled from the container simulations; the call must raise the documented exception and leave the canonical dump and the element ledger unchanged, and the model must keep agreeing afterwards.", TRUST + " Default (checked) build only.", "DESIGN.md section 5 C12 and appendix B"),
 "C16": _lt("containers", "Seeded exploration of heap String histories with every realloc allowed to move and new tails garbage-filled; contents, NUL placement inside the block, len/cmp/eq/hash/mem compared with a libc reference buffer after every operation.", TRUST, "DESIGN.md section 5 C16"),
 "C01": _lt("heap", "Seeded exploration of heap-mutation histories mirrored by a shadow graph, with the collection schedule (allocation-pressure bursts through the shipped threshold path), allocator placement (incl. all registry slots colliding) and realloc moves owned by the simulator: after every operation everything the shadow graph reaches from stack slots, root holders and TLS entries must be alive (destructor ledger, block ledger, canary).", TRUST + " Never asserts that something unreachable was collected.", "DESIGN.md section 5 C01"),
 "C06": _lt("heap", "Seeded exploration with an object ledger (destructor of a probe type) and the allocator's block ledger: every managed object finalised exactly once and released exactly once by the program-exit teardown that ends every plan, through Box ownership chains, stop/start windows and sweep-time deletions; the teardown point varies with the seeded plan length.", TRUST, "DESIGN.md section 5 C06"),
 "C17": _lt("heap", "Seeded exploration under adversarial address placement: mem(current(GC), p) compared with the ledger for every object ever seen after every operation, plus the registry enumerated through a read-only accessor hook (each object once, root flag, count, marks clear).", TRUST, "DESIGN.md section 5 C17"),
 "C19": _lt("containers+heap", "Invariant monitor over every object handed out by the container and heap simulations (true type, allocation class, size) plus fault enumeration of wrong deallocations / in-place growth on stack, static and embedded objects: must raise ResourceError/ValueError and leave the object intact; the arena ledger flags any free of a non-heap pointer or double free.", TRUST + " Default (checked) build only.", "DESIGN.md section 5 C19"),
 "C07": _lt("exc", "Seeded exploration of try/catch/throw program trees executed through the real macros (lexical nesting up to 3 in one function, dynamic nesting through calls, filters of arity 0-3, throws from bodies, library calls and handlers, sequences; also one tree per worker thread under the baton scheduler) compared event by event with a reference interpreter; uncaught programs run in a child process that must fail with a diagnostic.", TRUST, "DESIGN.md section 5 C07 and appendix C"),
 "C20": _lt("files", "Fault-free exploration plus fault enumeration over a simulated file layer: glibc stdio runs unmodified over fopencookie streams whose backing store, short reads, read/write/seek errors, failing fopen and failing fclose are owned by the simulator; a byte-array model decides round trips, stell/seof and exactly-once close, and guards on every stdio entry point used by File.c prove that a File that is not open never reaches stdio.", TRUST + " glibc is the trusted 'C library view'.", "DESIGN.md section 5 C20"),
 "C08": _lt("dispatch", "Seeded exploration over lookup histories (cold/warm/re-cooled caches, every public lookup entry point) for all built-in types and classes and run-time types with 0-256 instances, and over schedules: concurrent first lookups by 2-16 threads with pre-emptions placed inside the cache-fill windows by guarded yield hooks; oracle = independent scan of the raw type record.", TRUST, "DESIGN.md section 5 C08"),
 "C13": _lt("threads", "Seeded exploration over schedules (PCT-style pre-emption lists and chaos mode) of 2-16 real Cello threads serialised by the baton scheduler: per-workload digests equal the single-threaded digests, finalisation stays with the owning thread's collector, exceptions and TLS stay private, join publishes, mutex sections never overlap, no deadlock, thread teardown finalises everything.", TRUST, "DESIGN.md section 5 C13"),
 "C18": _lt("containers+exc", "Differential replay: one seeded in-contract plan is executed by a simulator binary per build configuration ({default, CELLO_NDEBUG, cache off, CELLO_NGC} x optimisation levels, plus the clang AddressSanitizer+UBSan build); transcripts / event traces must be byte-identical and every configuration must agree with the reference model.", TRUST + " In-contract programs only.", "DESIGN.md section 5 C18", "deterministic simulation: differential replay of one seeded plan across build configurations"),
}

NOT_APPLICABLE = {
 "C09": "cmp and its predicates are a pure function of two values; no schedule, fault, clock or history can change the answer, so a simulator would only be input generation in disguise (defects in cmp still surface under C03/C04 where keys span the int64 range).",
 "C11": "what a cursor or view yields is a pure function of the already-built iterable and the view parameters; there is no schedule, fault or history component for a simulator to own.",
 "C14": "print_to output is a pure function of format, arguments, position and sink; the only seam nearby (stdio under the File sink) would exercise glibc, not Cello.",
 "C15": "show/look and print/scan round-trips are pure functions of the value and the start position; nothing for deterministic simulation to schedule or fault.",
}
# claimed in DESIGN.md, check not built yet (removed from here as each check lands)
NOT_BUILT = {
}

ENGINES = [
 {"name": "threads", "path": "sim/scen_threads.c", "serves_properties": ["C13", "C06"],
  "kind_free_text": "2-16 real Cello threads under the baton scheduler (sim/sched.c): container / allocation / exception / TLS / mutex workloads with digests compared against single-threaded runs"},
 {"name": "dispatch", "path": "sim/scen_dispatch.c", "serves_properties": ["C08"],
  "kind_free_text": "type-class lookups over built-in and run-time types vs a raw record scan; cold/warm caches; concurrent first lookups with pre-emptions inside the cache fill"},
 {"name": "files", "path": "sim/scen_files.c", "serves_properties": ["C20"],
  "kind_free_text": "File streams over the in-memory file layer sim/vfs.c (fopencookie) with per-operation fault arming; byte-array reference model"},
 {"name": "exc", "path": "sim/scen_exc.c", "serves_properties": ["C07", "C13"],
  "kind_free_text": "seeded try/catch/throw program trees through the real macros vs a reference interpreter, optionally one tree per Cello worker thread under the baton scheduler"},
 {"name": "heap", "path": "sim/scen_heap.c", "serves_properties": ["C01", "C06", "C17", "C19"],
  "kind_free_text": "seeded heap-mutation plans (Nodes, Ref, Box, containers of refs; stack/root/TLS roots; links, dels, copies, chains, stop/start, bursts) mirrored by a shadow graph and object/block ledgers"},
 {"name": "containers", "path": "sim/scen_containers.c", "serves_properties": ["C02", "C03", "C04", "C05", "C10", "C12", "C16", "C18", "C19"],
  "kind_free_text": "seeded operation plans over Table/Tree/Array/List/Tuple/String against reference models; allocator policies, collector-managed instances with allocation-pressure bursts, invalid-call injection"},
]

NOTES = ("Technique family: deterministic simulation with fault injection (see DESIGN.md). One binary (cellosim) per build configuration is "
         "rebuilt from /repo's working tree by every check (content-hashed cache under .build/). Genuine defects found were repaired by "
         "'fix:' commits in /repo and are listed in known_findings.jsonl as fixed entries.")
