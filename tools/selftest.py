"""Self-checks of the machinery: determinism, soak (no alarm for any seed on the unchanged tree), sensitivity
(every revert patch of a repaired defect and every seeded mutation must be caught by the named property's check)."""
import os, sys, subprocess, json, tempfile, shutil, time, glob, re
from concurrent.futures import ThreadPoolExecutor

VERIF = os.path.dirname(os.path.dirname(os.path.abspath(__file__)))

def sh(cmd, **kw):
    return subprocess.run(cmd, stdout=subprocess.PIPE, stderr=subprocess.STDOUT, text=True, errors="replace", **kw)

def scratch_repo(patch=None):
    d = tempfile.mkdtemp(prefix="cello-scratch-", dir=os.environ.get("TMPDIR", "/tmp"))
    r = sh("cd /repo && tar --exclude=./obj --exclude=./.git --exclude='*.a' --exclude='*.so' --exclude=./tests/test -cf - . | tar -xf - -C %s" % d, shell=True)
    if patch:
        r = sh(["patch", "-p1", "-s", "-d", d, "-i", patch])
        if r.returncode != 0:
            shutil.rmtree(d, ignore_errors=True)
            return None, r.stdout
    return d, ""

def run_check(prop, seed, repo=None, tier="quick", runs=0, out=None):
    env = dict(os.environ)
    if repo: env["CELLO_REPO"] = repo; env["VERIF_NO_MINIMISE"] = "1"
    if out: env["VERIF_OUT"] = out
    cmd = [os.path.join(VERIF, "check"), prop, "--tier", tier, "--seed", str(seed)]
    if runs: cmd += ["--runs", str(runs)]
    r = sh(cmd, env=env)
    return r.returncode, r.stdout

def soak(args, seed, core):
    props = sorted(core.PROPS) if not args or args == "all" else args.split(",")
    nseeds = int(os.environ.get("SOAK_SEEDS", "40"))
    runs = int(os.environ.get("SOAK_RUNS", "0"))
    out = tempfile.mkdtemp(prefix="cello-soak-")
    bad = 0
    t0 = time.time()
    for p in props:
        for s in range(seed, seed + nseeds):
            rc, txt = run_check(p, s, runs=runs, out=out)
            if rc != 0:
                bad += 1
                print("SOAK-ALARM %s seed=%d rc=%d" % (p, s, rc))
                print("\n".join(l for l in txt.splitlines() if l.startswith(("VIOLATION", "INFRA"))))
                for f in glob.glob(os.path.join(out, "replays", p + "-*.plan")):
                    shutil.copy(f, os.path.join(VERIF, "replays", "soak-" + os.path.basename(f)))
            sys.stdout.flush()
        print("soak %s: %d seeds done, %d alarms so far, %.0fs" % (p, nseeds, bad, time.time() - t0)); sys.stdout.flush()
    shutil.rmtree(out, ignore_errors=True)
    return 1 if bad else 0

def determinism(args, seed, core):
    """every scenario: the same run indices executed twice (different chunking, with and without ASLR) must give identical RUN lines"""
    n = int(os.environ.get("DET_RUNS", "600"))
    bad = 0
    stages = []
    for p, spec in sorted(core.PROPS.items()):
        for st in spec["stages"]("quick"):
            key = (st["scen"], json.dumps(st.get("env", {}), sort_keys=True), st["configs"][0])
            if key not in [k for k, _ in stages]: stages.append((key, st))
    for (scen, envj, cfg), st in stages:
        exe = core.build(cfg)
        env = st.get("env", {})
        def go(first, count, aslr):
            cmd = [exe, "run", "scen=" + scen, "seed=%d" % seed, "first=%d" % first, "count=%d" % count, "timeout=120"] + core.envargs(env)
            if not aslr: cmd = ["setarch", "x86_64", "-R"] + cmd
            r = subprocess.run(cmd, stdout=subprocess.PIPE, stderr=subprocess.DEVNULL, text=True, errors="replace")
            return [re.sub(r" st=\S+", "", l) for l in r.stdout.splitlines() if l.startswith("RUN ")]
        with ThreadPoolExecutor(max_workers=16) as ex:
            a = list(ex.map(lambda f: go(f, 50, True), range(0, n, 50)))
        with ThreadPoolExecutor(max_workers=3) as ex:
            b = list(ex.map(lambda f: go(f, 25, False), range(0, n, 25)))
        la = [l for c in a for l in c]; lb = [l for c in b for l in c]
        diff = [(x, y) for x, y in zip(la, lb) if x != y]
        print("determinism %s %s %s: %d runs twice, %d differences" % (scen, envj, cfg, len(la), len(diff) + abs(len(la) - len(lb))))
        for x, y in diff[:3]: print("  A:", x[:200]); print("  B:", y[:200])
        bad += len(diff) + abs(len(la) - len(lb))
        sys.stdout.flush()
    return 1 if bad else 0

def sensitivity(args, seed, core):
    """apply each patch (revert of a fix, or a seeded mutation) to a scratch copy: baseline must still pass and the named check must alarm"""
    items = []
    for e in core.load_known():
        if e.get("revert"): items.append((e["property"], os.path.join(VERIF, e["revert"]), e.get("class", "*")))
    for meta in sorted(glob.glob(os.path.join(VERIF, "seeded", "*", "meta.json"))):
        m = json.load(open(meta))
        for p in m.get("caught_by", [m["property"]]):
            items.append((p, os.path.join(os.path.dirname(meta), "patch.diff"), "*"))
    if args and args != "all":
        items = [i for i in items if args in i[1] or args == i[0]]
    bad = 0
    out = tempfile.mkdtemp(prefix="cello-sens-")
    seen = set()
    for prop, patch, cls in items:
        if (prop, patch) in seen: continue
        seen.add((prop, patch))
        if prop not in core.PROPS: print("sensitivity %s %s: SKIP (check not built)" % (prop, os.path.basename(patch))); continue
        d, err = scratch_repo(patch)
        if not d:
            print("sensitivity %s %s: PATCH DOES NOT APPLY\n%s" % (prop, os.path.basename(patch), err)); bad += 1; continue
        try:
            b = sh([os.path.join(VERIF, "tools", "baseline.sh"), d])
            rc, txt = run_check(prop, seed, repo=d, out=out)
            hit = [l for l in txt.splitlines() if l.startswith("VIOLATION")]
            ok = rc == 1 and hit
            print("sensitivity %s %-55s baseline=%s check_rc=%d %s %s" % (prop, os.path.basename(os.path.dirname(patch)) + "/" + os.path.basename(patch), "pass" if b.returncode == 0 else "FAIL", rc,
                  "CAUGHT" if ok else "MISSED", (hit[0].split("class=")[1].split()[0] if hit else "")))
            if not ok or b.returncode != 0: bad += 1
        finally:
            shutil.rmtree(d, ignore_errors=True)
        sys.stdout.flush()
    shutil.rmtree(out, ignore_errors=True)
    return 1 if bad else 0

def benign(args, seed, core):
    """apply each behaviour-preserving change (benign/*/patch.diff) to a scratch copy: the suite must pass and every check
    recorded in its meta.json (the named property's and those whose engines exercise the touched files) must stay silent"""
    bad = 0
    out = tempfile.mkdtemp(prefix="cello-benign-")
    for meta in sorted(glob.glob(os.path.join(VERIF, "benign", "*", "meta.json"))):
        m = json.load(open(meta))
        if args and args != "all" and args not in m["name"] and args not in m["checks_run"]: continue
        patch = os.path.join(os.path.dirname(meta), "patch.diff")
        d, err = scratch_repo(patch)
        if not d:
            print("benign %s: PATCH DOES NOT APPLY\n%s" % (m["name"], err)); bad += 1; continue
        try:
            b = sh([os.path.join(VERIF, "tools", "baseline.sh"), d])
            res = []
            for p in m["checks_run"]:
                if args and args != "all" and args in m["checks_run"] and p != args: continue
                rc, txt = run_check(p, seed, repo=d, out=out)
                if rc != 0:
                    res.append("%s rc=%d %s" % (p, rc, [l[:160] for l in txt.splitlines() if l.startswith(("VIOLATION", "INFRA"))][:2]))
            ok = b.returncode == 0 and not res
            print("benign %-10s baseline=%s %s %s" % (m["name"], "pass" if b.returncode == 0 else "FAIL", "SILENT" if ok else "ALARM", "; ".join(res)))
            if not ok: bad += 1
        finally:
            shutil.rmtree(d, ignore_errors=True)
        sys.stdout.flush()
    shutil.rmtree(out, ignore_errors=True)
    return 1 if bad else 0

def regress(args, seed, core):
    """probes of repaired defects must pass on the current tree"""
    bad = 0
    for f in sorted(glob.glob(os.path.join(VERIF, "replays", "fixed", "*.plan"))):
        res, ecls, ehash, cfg = core.do_replay_file(f)
        ok = res.get("verdict") == "ok"
        print("regress %-55s %s" % (os.path.basename(f), "ok" if ok else "FAILS: " + str(res.get("class"))))
        bad += 0 if ok else 1
    return 1 if bad else 0

def main(what, seed, opts, core):
    arg = os.environ.get("SELFTEST_ARG", "")
    if what == "soak": return soak(arg, seed, core)
    if what == "determinism": return determinism(arg, seed, core)
    if what == "sensitivity": return sensitivity(arg, seed, core)
    if what == "regress": return regress(arg, seed, core)
    if what == "benign": return benign(arg, seed, core)
    print("selftest: determinism | soak | sensitivity | benign | regress (SELFTEST_ARG selects a property / patch)"); return 2
