#!/bin/sh
# build.sh <outdir> <flavour> [extra cflags...]
# Compiles /repo/src/*.c (current working tree, -DCELLO_VERIF) + /verif/sim/*.c into <outdir>/cellosim.
set -e
OUT=$1; FLAV=$2; shift 2
REPO=${CELLO_REPO:-/repo}
SIM=$(dirname "$0")/../sim
mkdir -p "$OUT"
case "$FLAV" in
  plain) CC=gcc;   FL="-O1 -g" ;;
  asan)  CC=clang; FL="-O1 -g -fsanitize=address,undefined -fno-sanitize-recover=undefined -fno-sanitize=alignment -fno-sanitize=pointer-overflow -fno-omit-frame-pointer" ;;
  o0)    CC=gcc;   FL="-O0 -g" ;;
  o2)    CC=gcc;   FL="-O2 -g" ;;
  o3)    CC=gcc;   FL="-O3 -g" ;;
  fine)  CC=gcc;   FL="-O1 -g"; REPOFL="-fsanitize=thread" ;;
  *) echo "unknown flavour $FLAV" >&2; exit 2 ;;
esac
COMMON="-std=gnu99 -I$REPO/include -I$SIM -DCELLO_VERIF -DCELLO_NSTRACE -fno-pie -Wall -Wno-unused -Wno-unknown-pragmas $FL $*"
WRAP="-Wl,--wrap=malloc,--wrap=calloc,--wrap=realloc,--wrap=free,--wrap=pthread_create,--wrap=pthread_join,--wrap=pthread_mutex_lock,--wrap=pthread_mutex_trylock,--wrap=pthread_mutex_unlock,--wrap=fopen,--wrap=fclose,--wrap=fread,--wrap=fwrite,--wrap=fseek,--wrap=ftell,--wrap=fflush,--wrap=feof,--wrap=vfprintf,--wrap=vfscanf"
pids=""
fail=0
# pthread_getspecific is redirected by a macro for /repo's objects only: under --wrap the sanitizer runtime's own
# calls (made while it holds internal locks) would become scheduling points too
for f in "$REPO"/src/*.c "$SIM"/*.c; do
  o="$OUT/$(basename "$f" .c).o"
  X="-Dpthread_getspecific=__wrap_pthread_getspecific $REPOFL"
  case "$f" in "$SIM"/*) o="$OUT/sim_$(basename "$f" .c).o"; X="" ;; esac
  $CC $COMMON $X -c "$f" -o "$o" 2> "$o.log" &
  pids="$pids $!"
done
for p in $pids; do wait $p || fail=1; done
if [ $fail -ne 0 ]; then cat "$OUT"/*.log >&2; exit 1; fi
cat "$OUT"/*.log >&2 || true
$CC $FL -no-pie $WRAP "$OUT"/*.o -o "$OUT/cellosim" -lpthread -lm
# a real Cello program linked without the simulator (the library's own `main` macro, the real allocator and threads): its way of
# ending - return, exit(), uncaught exception - is driven by the heap engine (progs/exitprog.c)
PROGS=$(dirname "$0")/../progs
REPO_OBJS=""
for f in "$REPO"/src/*.c; do REPO_OBJS="$REPO_OBJS $OUT/$(basename "$f" .c).o"; done
if [ "$FLAV" != fine ] && [ "$FLAV" != asan ]; then   # (not the sanitizer build: outside the simulator its runtime objects to the conservative stack scan)
  $CC $COMMON -c "$PROGS/exitprog.c" -o "$OUT/prog_exitprog.po"
  $CC $FL -no-pie "$OUT/prog_exitprog.po" $REPO_OBJS -o "$OUT/exitprog" -lpthread -lm
fi
