#!/usr/bin/env python3
"""prints the 'budgets as built' table of DESIGN.md section 0 from tools/props.py"""
import os, sys
sys.path.insert(0, os.path.dirname(os.path.abspath(__file__)))
import props
print("| id | level | stages (scenario/config x runs) quick | total thorough runs |")
print("|---|---|---|---|")
for pid in sorted(props.PROPS):
    P = props.PROPS[pid]
    q = P["stages"]("quick"); t = P["stages"]("thorough")
    def fmt(st):
        env = st.get("env", {})
        tag = "%s%s/%s" % (st["scen"], "[enum]" if env.get("enum") else "", "+".join(st["configs"]))
        return "%s x %d" % (tag, st["runs"])
    items = [fmt(s) for s in q]
    txt = ", ".join(items[:7]) + (" ... (%d stages)" % len(items) if len(items) > 7 else "")
    print("| %s | %s | %s | %d |" % (pid, P["level"], txt, sum(s["runs"] * len(s["configs"]) for s in t)))
