#!/usr/bin/env python3
"""Regenerates /verif/MANIFEST.json from tools/props.py (checks) and tools/manifest_static.py (texts)."""
import json, os, sys, subprocess
HERE = os.path.dirname(os.path.abspath(__file__))
sys.path.insert(0, HERE)
from props import PROPS
from manifest_static import LEVEL_TEXT, NOT_APPLICABLE, NOT_BUILT, ENGINES, NOTES
VERIF = os.path.dirname(HERE)
hooks = subprocess.run(["git", "-C", "/repo", "log", "--format=%H %s"], stdout=subprocess.PIPE, text=True).stdout.splitlines()
hook_commits = [l.split()[0] for l in hooks if "verif hook" in l]
checks = []
for pid in sorted(PROPS):
    spec = PROPS[pid]
    lt = LEVEL_TEXT[pid]
    checks.append({
        "property_id": pid,
        "quick_cmd": "./check %s --tier quick" % pid,
        "thorough_cmd": "./check %s --tier thorough" % pid,
        "evidence_file": "evidence/%s.json" % pid,
        "replay_cmd_template": "./check replay {path}",
        "engine": lt["engine"],
        "level_claimed": {"category": spec["level"], "text": lt["text"], "design_ref": lt["design_ref"]},
        "level_note": lt["note"],
        "technique": lt["technique"],
    })
na = [{"property_id": k, "reason": v} for k, v in sorted(NOT_APPLICABLE.items())]
na += [{"property_id": k, "reason": v} for k, v in sorted(NOT_BUILT.items()) if k not in PROPS]
m = {
    "version": 1,
    "setup_cmd": "./tools/setup.sh",
    "hooks": {
        "guard": "CELLO_VERIF",
        "enable": "every check compiles /repo/src/*.c from the current working tree with -DCELLO_VERIF (tools/build.sh) and links it with /verif/sim/*.c under -Wl,--wrap=malloc,calloc,realloc,free,pthread_create,pthread_join,pthread_mutex_lock,pthread_mutex_trylock,pthread_mutex_unlock,pthread_getspecific,fopen,fclose",
        "baseline_off_cmd": "./tools/baseline.sh /repo",
        "source_commits": hook_commits[::-1],
        "add_only": True,
    },
    "engines": ENGINES,
    "checks": checks,
    "notes": NOTES,
    "not_applicable": na,
}
json.dump(m, open(os.path.join(VERIF, "MANIFEST.json"), "w"), indent=1)
print("MANIFEST.json: %d checks, %d not applicable" % (len(checks), len(na)))
