/* exitprog: a real Cello program (entry point through the library's own `main` macro) whose way of ending is chosen by the
 * simulator: return from main, exit() deep inside calls and try blocks, an uncaught exception, or return after a worker thread
 * has run.  Every probe object reports its construction and its finalisation on fd 3 (one line each); the heap engine compares
 * the two lists.  Serves the "at the latest ... at program exit" clause of C06.
 *   exitprog <mode> <n> <seed>      mode: 0 return, 1 exit(0) in a callee, 2 exit(7) inside try, 3 uncaught exception, 4 thread then return */
#include "Cello.h"
#include <pthread.h>
#include <unistd.h>

/* /repo's objects are compiled with pthread_getspecific redirected (see tools/build.sh); here it is the real one */
void* __wrap_pthread_getspecific(pthread_key_t k) { return pthread_getspecific(k); }

static int g_next;
struct Probe { int64_t id; var other; };
static void report(char what, int64_t id) { char b[32]; int n = snprintf(b, sizeof b, "%c %lld\n", what, (long long)id); if (write(3, b, (size_t)n) < 0) { } }
static void Probe_New(var self, var args) { struct Probe* p = self; p->id = ++g_next; p->other = NULL; report('c', p->id); }
static void Probe_Del(var self) { struct Probe* p = self; report('d', p->id); }
static var Probe = Cello(Probe, Instance(New, Probe_New, Probe_Del));

static uint64_t rs;
static uint32_t rnd(uint32_t n) { rs = rs * 6364136223846793005ULL + 1442695040888963407ULL; return (uint32_t)((rs >> 33) % n); }

static var* keep;       /* eight Probes and eight Boxes that stay reachable: the arrays live in a frame the collector scans */
static var* keepb;
static void churn(int n) {
  for (int i = 0; i < n; i++) {
    struct Probe* p = new(Probe);
    uint32_t r = rnd(10);
    if (r < 3) keep[rnd(8)] = p;                       /* some stay reachable until the end */
    else if (r < 5 && keep[r]) ((struct Probe*)keep[r])->other = p;
    else if (r == 5) del(p);                            /* some are deleted by hand */
    else if (r == 6) { var b = new(Box, p); if (rnd(2)) keepb[rnd(8)] = b; }
  }
}
static var worker(var args) { var k[8] = { NULL }, kb[8] = { NULL }; var* sk = keep; var* skb = keepb; keep = k; keepb = kb; churn(40); keep = sk; keepb = skb; return NULL; }
static void deep(int mode, int depth) {
  volatile char pad[128]; pad[0] = (char)depth;
  if (depth > 0) { deep(mode, depth - 1); return; }
  churn(10);
  if (mode == 1) exit(0);
  if (mode == 2) { try { churn(5); exit(7); } catch (e) { } }
  if (mode == 3) throw(KeyError, "nobody catches this (mode %i)", $I(mode));
}

int main(int argc, char** argv) {
  int mode = argc > 1 ? atoi(argv[1]) : 0, n = argc > 2 ? atoi(argv[2]) : 50;
  rs = argc > 3 ? (uint64_t)atoll(argv[3]) : 1;
  var k[8] = { NULL }, kb[8] = { NULL };
  keep = k; keepb = kb;
  churn(n);
  if (mode == 4) { var t = new(Thread, $(Function, worker)); call(t); join(t); }
  if (mode >= 1 && mode <= 3) deep(mode, 3 + (int)rnd(4));
  churn(n / 4);
  return 0;
}
