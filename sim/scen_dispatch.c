/* Scenario engine "dispatch": type-class lookups over every built-in type and class and
 * over run-time types with 0-256 instances in seeded order, in seeded orders (cold and
 * warm caches, re-cooled through the public record layout), and the same lookup sets
 * issued concurrently by 2-16 threads against cold types with pre-emptions inside the
 * cache-fill window (guarded yield hooks).  Oracle: an independent scan of the raw type
 * record by class name.  Serves C08. */
#define _GNU_SOURCE
#include "cglue.h"

enum { D_MKTYPE, D_COOL, D_LOOKUP, D_SWEEP, D_CONC, D_CAST, D_RMTYPE, D_RECLASS, D_NOPS };
static const OpInfo OPS[D_NOPS] = {
  [D_MKTYPE] = { "mktype", 3 },   /* ninst nbuiltin seed */
  [D_COOL]   = { "cool", 1 },     /* type */
  [D_LOOKUP] = { "lookup", 3 },   /* type class member */
  [D_SWEEP]  = { "sweep", 2 },    /* type order-seed */
  [D_CONC]   = { "conc", 3 },     /* type nthreads order-seed */
  [D_CAST]   = { "cast", 2 },     /* type other-type */
  [D_RECLASS] = { "reclass", 1 }, /* which: delete a run-time class object and create it again under its name (at another address) */
  [D_RMTYPE] = { "rmtype", 4 },   /* which ninst nbuiltin seed: delete a run-time type and create another one (its address may be reused) */
};

#define NCLS 30
typedef struct { var* cls; const char* name; int nmem; } ClsInfo;
static ClsInfo CI[NCLS] = {
  { &Doc, "Doc", 6 }, { &Help, "Help", 1 }, { &Cast, "Cast", 1 }, { &Size, "Size", 1 }, { &Alloc, "Alloc", 2 }, { &New, "New", 2 },
  { &Copy, "Copy", 1 }, { &Assign, "Assign", 1 }, { &Swap, "Swap", 1 }, { &Cmp, "Cmp", 1 }, { &Hash, "Hash", 1 }, { &Len, "Len", 1 },
  { &Iter, "Iter", 5 }, { &Push, "Push", 4 }, { &Concat, "Concat", 2 }, { &Get, "Get", 6 }, { &Sort, "Sort", 1 }, { &Resize, "Resize", 1 },
  { &C_Str, "C_Str", 1 }, { &C_Int, "C_Int", 1 }, { &C_Float, "C_Float", 1 }, { &Stream, "Stream", 8 }, { &Pointer, "Pointer", 2 },
  { &Call, "Call", 1 }, { &Format, "Format", 2 }, { &Show, "Show", 2 }, { &Current, "Current", 1 }, { &Start, "Start", 4 },
  { &Lock, "Lock", 3 }, { &Mark, "Mark", 1 },
};

#define NBUILTIN_T 39
static var* BT[NBUILTIN_T] = {
  &Type, &Tuple, &Ref, &Box, &Int, &Float, &String, &Tree, &List, &Array, &Table, &Range, &Slice, &Zip, &Filter, &Map,
  &File, &Mutex, &Thread, &Process, &Function, &Exception,
#ifndef CELLO_NGC
  &GC,
#else
  &Range,
#endif
  &IOError, &KeyError, &TypeError, &ValueError, &ClassError, &FormatError, &ResourceError, &IndexOutOfBoundsError,
  &Doc, &Size, &Hash, &Iter, &Get, &Mark, &Cmp, &New,
};

#define MAXRT 12          /* run-time types per run */
#define MAXRC 256         /* run-time classes */
static var RT[MAXRT]; static int g_nrt;
static var RC[MAXRC]; static int g_nrc;
static char g_names[MAXRT + MAXRC][16];
/* what each run-time type was declared with, in order (a class may be declared more than once: the first declaration is the
 * one every lookup must answer with) */
#define MAXDECL 300
static struct { int n; int ck[MAXDECL]; var inst[MAXDECL]; } *DECL[MAXRT];
static volatile long g_tripwire;

static var tripwire(var a) { (void)a; g_tripwire++; return NULL; }

static var type_at(int64_t i) {
  int n = NBUILTIN_T + g_nrt;
  int k = (int)(((i % n) + n) % n);
  return k < NBUILTIN_T ? *BT[k] : RT[k - NBUILTIN_T];
}
static int ncls_total(void) { return NCLS + g_nrc; }
static var cls_at(int k) { return k < NCLS ? *CI[k].cls : RC[k - NCLS]; }
static int cls_nmem(int k) { return k < NCLS ? CI[k].nmem : 2; }

/* ---- the oracle: raw scan of the public record layout, by class name */
#define NB (2 + (CELLO_CACHE_NUM / 3))
static const char* raw_name_of(var t) { return ((struct Type*)t)[CELLO_CACHE_NUM / 3].inst; }
static var raw_scan(var t, var cls) {
  const char* cname = raw_name_of(cls);
  struct Type* e = (struct Type*)t + NB;
  for (; e->name; e++) if (strcmp((const char*)e->name, cname) == 0) return e->inst;
  return NULL;
}
static int raw_count(var t) { int n = 0; for (struct Type* e = (struct Type*)t + NB; e->name; e++) n++; return n; }

/* re-cool through the public layout: cache slots, per-instance class memo, lazily written header type */
static void cool(var t) {
#if CELLO_CACHE == 1
  for (int i = 0; i < CELLO_CACHE_NUM; i++) ((var*)t)[i] = NULL;
#endif
  for (struct Type* e = (struct Type*)t + NB; e->name; e++) e->cls = NULL;
  stat_add("disp.cooled", 1);
}

static var make_obj_of(var t, char* buf) {
  /* an object whose type is t, never constructed: only its header is looked at */
  return header_init(buf, t, AllocStack);
}

#define DV(cls, ...) viol("C08", cls, __VA_ARGS__)

/* one (type, class, member) triple through every public lookup */
static int rt_slot_of(var t) { for (int i = 0; i < MAXRT; i++) if (RT[i] is t && DECL[i]) return i; return -1; }
static var declared_instance(var t, int ck, var cls) {
  int s = rt_slot_of(t);
  if (s < 0) return raw_scan(t, cls);            /* static types: the record in the binary is the declaration */
  for (int i = 0; i < DECL[s]->n; i++) if (DECL[s]->ck[i] == ck) return DECL[s]->inst[i];
  return NULL;
}
/* a class is known by its name: another class object carrying the name of a built-in class must be answered like that class */
static var TWCLS[NCLS];
static var twin_class(int ck) {
  if (!TWCLS[ck]) { TWCLS[ck] = new_raw(Type, $S((char*)CI[ck].name), $I((int64_t)size(*CI[ck].cls)));
                    ((struct Type*)TWCLS[ck])[CELLO_CACHE_NUM / 3].inst = (var)CI[ck].name; stat_add("disp.twin_classes", 1); }
  return TWCLS[ck];
}
static void check_triple(var t, int ck, int member, int tid) {
  var cls = cls_at(ck);
  var want = declared_instance(t, ck, cls);
  if (tid == 0 && ck < NCLS && (member & 8)) { cls = twin_class(ck); stat_add("disp.lookups_through_twin_class", 1); }
  int nmem = cls_nmem(ck);
  int m = (((member & 7) % nmem) + nmem) % nmem;
  int has_member = want && ((var*)want)[m] != NULL;
  size_t off = (size_t)m * sizeof(var);
  const char* tn = raw_name_of(t); const char* cn = raw_name_of(cls);
  char buf[sizeof(struct Header) + 64] __attribute__((aligned(16)));
  memset(buf, 0, sizeof buf);
  var obj = make_obj_of(t, buf);
  long trip0 = g_tripwire;

  var got = type_instance(t, cls);
  if (got isnt want) DV("C08:wrong-instance:type_instance", "thread %d: type_instance(%s, %s) = %p, the record declares %p", tid, tn, cn, got, want);
  if (type_implements(t, cls) != (want != NULL)) DV("C08:wrong-answer:type_implements", "thread %d: type_implements(%s, %s) disagrees with the record", tid, tn, cn);
  got = instance(obj, cls);
  if (got isnt want) DV("C08:wrong-instance:instance", "thread %d: instance(<%s>, %s) = %p, the record declares %p", tid, tn, cn, got, want);
  if (implements(obj, cls) != (want != NULL)) DV("C08:wrong-answer:implements", "thread %d: implements(<%s>, %s) disagrees with the record", tid, tn, cn);
  if (type_implements_method_at_offset(t, cls, off) != (bool)has_member) DV("C08:wrong-answer:type_implements_method", "thread %d: type_implements_method(%s, %s, member %d) disagrees with the record", tid, tn, cn, m);
  if (implements_method_at_offset(obj, cls, off) != (bool)has_member) DV("C08:wrong-answer:implements_method", "thread %d: implements_method(<%s>, %s, member %d) disagrees with the record", tid, tn, cn, m);

  var volatile ex = NULL; var volatile r = NULL;
  try { r = type_method_at_offset(t, cls, off, "member"); } catch (e) { ex = e; }
  if (has_member) {
    if (ex) DV("C08:method-raised", "thread %d: type_method(%s, %s, member %d) raised %s though declared", tid, tn, cn, m, exc_name(ex));
    if (r isnt want) DV("C08:wrong-instance:type_method", "thread %d: type_method(%s, %s) returned another instance", tid, tn, cn);
  } else {
#if CELLO_METHOD_CHECK == 1
    if (ex isnt ClassError) DV(want ? "C08:empty-member-no-classerror" : "C08:missing-class-no-classerror", "thread %d: type_method(%s, %s, member %d) raised %s instead of ClassError", tid, tn, cn, m, exc_name(ex));
    stat_add(want ? "disp.empty_member" : "disp.missing_class", 1);
#endif
  }
  ex = NULL; r = NULL;
  try { r = method_at_offset(obj, cls, off, "member"); } catch (e) { ex = e; }
  if (has_member) { if (ex || r isnt want) DV("C08:wrong-instance:method", "thread %d: method(<%s>, %s, member %d) failed though declared", tid, tn, cn, m); }
  else {
#if CELLO_METHOD_CHECK == 1
    if (ex isnt ClassError) DV("C08:missing-no-classerror:method", "thread %d: method(<%s>, %s, member %d) raised %s instead of ClassError", tid, tn, cn, m, exc_name(ex));
#endif
  }
  if (g_tripwire != trip0) DV("C08:member-invoked", "a lookup on (%s, %s) invoked a member function", tn, cn);
  if (type_of(obj) isnt t) DV("C08:type_of-changed", "type_of of an object of %s changed", tn);
  stat_add("disp.triples", 1);
}

static void sweep(var t, uint64_t order_seed, int tid) {
  int n = ncls_total();
  int limit = tid == 0 ? n : 48;      /* concurrent sweeps look at a seeded subset (every thread the same one) */
  /* a permutation of the classes by a multiplicative walk */
  Rng r; rng_seed(&r, order_seed, 17, STREAM_AUX);
  int start = (int)rng_below(&r, (uint32_t)n);
  static const int steps[] = { 1, 7, 11, 13, 17, 19, 23, 29, 31, 37 };
  int step = steps[rng_below(&r, 10)];
  while (n % step == 0 && step > 1) step = steps[rng_below(&r, 10)];
  for (int i = 0, k = start; i < n && i < limit; i++, k = (k + step) % n) {
    check_triple(t, k, (int)rng_below(&r, 8), tid);
    if (rng_chance(&r, 1, 3)) check_triple(t, k, (int)rng_below(&r, 8), tid);   /* repeated (warm) lookup */
  }
}

/* ---- concurrent first lookups */
static var g_conc_type; static uint64_t g_conc_seed;
static var conc_entry(var args) {
  (void)args;
  sweep(g_conc_type, g_conc_seed, sched_self());
  return NULL;
}

static int g_replace_slot = -1;
static var g_inplace_type;
static void mktype(int ninst, int nbuiltin, uint64_t seed) {
  if (g_nrt >= MAXRT && g_replace_slot < 0) return;
  Rng r; rng_seed(&r, seed, 5, STREAM_AUX);
  ninst = ((ninst % 257) + 257) % 257;
  nbuiltin = ((nbuiltin % (NCLS + 1)) + NCLS + 1) % (NCLS + 1);
  if (nbuiltin > ninst) nbuiltin = ninst;
  /* make sure enough run-time classes exist */
  while (g_nrc < ninst - nbuiltin && g_nrc < MAXRC) {
    snprintf(g_names[MAXRT + g_nrc], 16, "K%d", g_nrc);
    RC[g_nrc] = new_raw(Type, $S(g_names[MAXRT + g_nrc]), $I(16));
    g_nrc++;
  }
  var args = new_raw(Tuple);
  int slot = g_replace_slot >= 0 ? g_replace_slot : g_nrt;
  static int serial;
  snprintf(g_names[slot], 16, "Dyn%d", slot + MAXRT * (serial++ / MAXRT));
  push(args, new_raw(String, $S(g_names[slot])));
  push(args, new_raw(Int, $I(24)));
  /* instance list: nbuiltin built-in classes (distinct, seeded choice) + run-time classes, shuffled */
  static int pick[512];
  int n = 0;
  int used[NCLS] = { 0 };
  for (int i = 0; i < nbuiltin; i++) { int c; do { c = (int)rng_below(&r, NCLS); } while (used[c]); used[c] = 1; pick[n++] = c; }
  for (int i = 0; i < ninst - nbuiltin && i < g_nrc; i++) pick[n++] = NCLS + i;
  for (int i = n - 1; i > 0; i--) { int j = (int)rng_below(&r, (uint32_t)i + 1); int t = pick[i]; pick[i] = pick[j]; pick[j] = t; }
  /* unusual but legal declarations (their own random stream, so the rest of the type is what it was without them):
   * a class declared a second time somewhere later in the list; a name another type already has */
  Rng r2; rng_seed(&r2, seed, 6, STREAM_AUX);
  if (n > 0 && rng_chance(&r2, 1, 3)) {
    int nd = 1 + (int)rng_below(&r2, 3);
    if (n + nd > 256) nd = 256 - n;                /* Type_New accepts at most 256 instances */
    for (int d = 0; d < nd; d++) {
      int i = (int)rng_below(&r2, (uint32_t)n), j = i + 1 + (int)rng_below(&r2, (uint32_t)(n - i));
      memmove(&pick[j + 1], &pick[j], sizeof(int) * (size_t)(n - j)); pick[j] = pick[i]; n++;
    }
    stat_add("disp.repeated_class_declarations", nd);
  }
  if (rng_chance(&r2, 1, 3)) {
    int k = (int)rng_below(&r2, (uint32_t)(NBUILTIN_T + g_nrt));
    const char* nm = (k >= NBUILTIN_T && k - NBUILTIN_T == slot) ? "" : raw_name_of(type_at(k));   /* not the type being replaced */
    if (nm[0] && strlen(nm) < 16 && strcmp(nm, g_names[slot]) != 0) {
      strcpy(g_names[slot], nm);
      stat_add("disp.same_named_types", 1);
    }
  }
  if (!DECL[slot]) DECL[slot] = harness_alloc(sizeof *DECL[slot]);
  DECL[slot]->n = 0;
  for (int i = 0; i < n; i++) {
    var c = cls_at(pick[i]);
    var inst = alloc_raw(c);                       /* an object whose type is the class: the instance record */
    int nm = cls_nmem(pick[i]);
    size_t sz = size(c);
    for (int m = 0; m < nm && (size_t)(m + 1) * sizeof(var) <= sz; m++)
      ((var*)inst)[m] = rng_chance(&r, 3, 4) ? (var)tripwire : NULL;   /* some members left empty */
    push(args, inst);
    if (DECL[slot]->n < MAXDECL) { DECL[slot]->ck[DECL[slot]->n] = pick[i]; DECL[slot]->inst[DECL[slot]->n] = inst; DECL[slot]->n++; }
  }
  /* a fresh type object, or the constructor run again on an existing one (construct): everything the old definition left
   * behind - cache slots, class memos - must be gone */
  var t = g_inplace_type ? construct_with(g_inplace_type, args) : new_raw_with(Type, args);
  g_inplace_type = NULL;
  /* the name string must outlive the type (Type_New keeps the pointer) */
  ((struct Type*)t)[CELLO_CACHE_NUM / 3].inst = g_names[slot];
  RT[slot] = t;
  if (g_replace_slot < 0) g_nrt++;
  g_replace_slot = -1;
  if (raw_count(t) != n) DV("C08:record-lost-declarations", "run-time type declared with %d instances has %d in its record", n, raw_count(t));
  stat_max("disp.max_instances", n);
  stat_add("disp.runtime_types", 1);
}

static void dispatch_execute(const Plan* p) {
  for (int i = 0; i < p->nops; i++) {
    const Op* o = &p->ops[i];
    progress(i, "C08", OPS[o->code].name);
    ev("op %d %s", i, OPS[o->code].name);
    switch (o->code) {
      case D_MKTYPE: mktype((int)o->a[0], (int)o->a[1], (uint64_t)o->a[2]); break;
      case D_COOL: cool(type_at(o->a[0])); break;
      case D_LOOKUP: { int n = ncls_total(); check_triple(type_at(o->a[0]), (int)(((o->a[1] % n) + n) % n), (int)(o->a[2] & 15), 0); break; }
      case D_RECLASS: {
        if (g_nrc == 0) break;
        int k = (int)(((o->a[0] % g_nrc) + g_nrc) % g_nrc);
        var old = RC[k];
        del_raw(old);
        RC[k] = new_raw(Type, $S(g_names[MAXRT + k]), $I(16));
        if (RC[k] isnt old) stat_add("disp.class_recreated_elsewhere", 1);
        /* (declarations are by class name: the records of the types that declared it stay as they are) */
        stat_add("disp.classes_recreated", 1);
        break; }
      case D_SWEEP: sweep(type_at(o->a[0]), (uint64_t)o->a[1], 0); break;
      case D_CAST: {
        var t = type_at(o->a[0]), u = type_at(o->a[1]);
        char buf[sizeof(struct Header) + 64] __attribute__((aligned(16))); memset(buf, 0, sizeof buf);
        var obj = make_obj_of(t, buf);
        var volatile ex = NULL; var volatile r = NULL;
        var ci = raw_scan(t, Cast);
        if (ci && ((var*)ci)[0]) { stat_add("disp.cast_overridden", 1); break; }     /* the type declares its own cast: nothing to predict */
        try { r = cast(obj, u); } catch (e) { ex = e; }
        if (t is u) { if (ex || r isnt obj) DV("C08:cast-same-type-failed", "cast to the object's own type failed"); }
        else if (ex isnt ValueError) DV("C08:cast-no-valueerror", "cast(<%s>, %s) raised %s instead of ValueError", raw_name_of(t), raw_name_of(u), exc_name(ex));
        stat_add("disp.casts", 1);
        /* every other type that merely has the same name is a different type */
        for (int k = 0; k < NBUILTIN_T + g_nrt; k++) {
          var w = type_at(k);
          if (w is t || strcmp(raw_name_of(w), raw_name_of(t)) != 0) continue;
          ex = NULL;
          try { r = cast(obj, w); } catch (e) { ex = e; }
          if (ex isnt ValueError) DV("C08:cast-no-valueerror", "cast(<%s>, another type named %s) raised %s instead of ValueError", raw_name_of(t), raw_name_of(w), exc_name(ex));
          stat_add("disp.casts_to_same_named_type", 1);
        }
        break; }
      case D_RMTYPE: {
        if (g_nrt == 0) break;
        int k = (int)(((o->a[0] % g_nrt) + g_nrt) % g_nrt);
        var old = RT[k];
        sweep(old, (uint64_t)o->a[3], 0);            /* the dying type's lookups are the most recent ones */
        if ((o->a[0] / 8) % 2 == 1) { g_inplace_type = old; stat_add("disp.types_redefined_in_place", 1); }
        else del_raw(old);
        g_replace_slot = k;
        mktype((int)o->a[1], (int)o->a[2], (uint64_t)o->a[3] + 1);
        if (RT[k] is old) stat_add("disp.type_address_reused", 1);
        sweep(RT[k], (uint64_t)o->a[3] + 2, 0);
        stat_add("disp.types_replaced", 1);
        break; }
      case D_CONC: {
        var t = type_at(o->a[0]);
        int nth = 2 + (int)(((o->a[1] % 15) + 15) % 15);
        if (nth > 6 && (o->a[2] % 5) != 0) nth = 2 + nth % 5;        /* mostly 2-6 threads, sometimes up to 16 */
        cool(t);
        g_conc_type = t; g_conc_seed = (uint64_t)o->a[2];
        var th[17];
        for (int k = 0; k < nth; k++) { th[k] = new_raw(Thread, $(Function, conc_entry)); call(th[k]); }
        for (int k = 0; k < nth; k++) { join(th[k]); del_raw(th[k]); }
        sweep(t, (uint64_t)o->a[2] + 1, 0);
        stat_add("disp.concurrent_sweeps", 1); stat_max("disp.max_threads", nth);
        break; }
      default: break;
    }
  }
  if (sched_hook_switches[1] + sched_hook_switches[2] + sched_hook_switches[3] > 0 && stat_get("disp.max_instances") > 18) mark_nontrivial();
  stat_add("disp.hook_switches", sched_lib_switches);
}

static void dispatch_generate(Plan* p, Rng* r) {
  plan_env_set(p, "alloc.place", (int)rng_below(r, 3));
  plan_env_set(p, "sched.mode", 2);
  plan_env_set(p, "sched.chaos_den", 3 + (int)rng_below(r, 30));
  int nrt = 1 + (int)rng_below(r, 3);
  static const int sizes[] = { 0, 1, 2, 5, 17, 18, 19, 30, 40, 64, 128, 200, 255, 256 };
  for (int i = 0; i < nrt; i++) { int ni = sizes[rng_below(r, 14)]; int64_t m3 = (int64_t)rng_below(r, 1000000), m2 = rng_below(r, NCLS + 1); plan_add(p, D_MKTYPE, 0, 0, ni, m2, m3, 0, 0, 0); }
  int nops = 3 + (int)rng_below(r, 14);
  for (int i = 0; i < nops; i++) {
    uint32_t d = rng_below(r, 100);
    int64_t t = rng_chance(r, 1, 3) ? NBUILTIN_T + (int64_t)rng_below(r, (uint32_t)nrt) : (int64_t)rng_below(r, NBUILTIN_T);
    if (d < 25) { int64_t l3 = rng_below(r, 16), l2 = rng_below(r, 300); plan_add(p, D_LOOKUP, 0, 0, t, l2, l3, 0, 0, 0); }
    else if (d < 45) plan_add(p, D_SWEEP, 0, 0, t, (int64_t)rng_below(r, 1000000), 0, 0, 0, 0);
    else if (d < 60) plan_add(p, D_COOL, 0, 0, t, 0, 0, 0, 0, 0);
    else if (d < 68) plan_add(p, D_CAST, 0, 0, t, rng_below(r, NBUILTIN_T + 3), 0, 0, 0, 0);
    else if (d < 72) { int64_t q4 = (int64_t)rng_below(r, 1000000), q3 = rng_below(r, NCLS + 1), q2 = sizes[rng_below(r, 14)], q1 = rng_below(r, 16); plan_add(p, D_RMTYPE, 0, 0, q1, q2, q3, q4, 0, 0); }
    else if (d < 76) plan_add(p, D_RECLASS, 0, 0, rng_below(r, 300), 0, 0, 0, 0, 0);
    else { int64_t c3 = (int64_t)rng_below(r, 1000000), c2 = rng_below(r, 15); plan_add(p, D_CONC, 0, 0, t, c2, c3, 0, 0, 0); }
  }
}

const Scenario scen_dispatch = { "dispatch", OPS, D_NOPS, dispatch_generate, dispatch_execute, "C08" };
