/* Cello-side shared declarations for scenario engines (include after Cello.h). */
#ifndef CGLUE_H
#define CGLUE_H
#include "Cello.h"
#include "sim.h"

/* ---- Tok: element type with constructor/assign/destructor that owns heap memory.
 * Every live token has a unique id in the element ledger. id 0 = "template"
 * (a stack value used only as an argument; never issued, never retired). */
struct Tok { int64_t id; int64_t val; char* payload; };
extern var Tok;
#define TOK_REFUSED 666666   /* Tok_Assign raises ValueError for this value */
#define TOK_T(v) $(Tok, 0, (v), NULL)

long tok_live(void);
void tok_forgive(long n);
long tok_issued(void);
long tok_retired(void);
int  tok_state(int64_t id);          /* 0 never issued, 1 live, 2 retired */
int  tok_payload_ok(struct Tok* t);  /* payload block live in arena and consistent with val */
extern const char* tok_prop;         /* property blamed for ledger faults raised inside Tok */
/* seen-marks for "visible at exactly one place" scans */
void tok_scan_begin(void);
void tok_scan_see(struct Tok* t, const char* where);
void tok_scan_end(const char* prop, long expect_live);

/* ---- CKey: Int-like key whose Cmp counts calls */
struct CKey { int64_t val; };
extern var CKey;
extern long ckey_cmp_calls;

/* ---- exception capture helper: runs nothing itself; engines use the macros */
const char* exc_name(var e);

/* number for a Cello exception object (stable across runs) */
int exc_code(var e);

#endif
