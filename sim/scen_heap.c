/* Scenario engine "heap": a mutator that builds arbitrary object graphs through the
 * public API, mirrored by a shadow graph; collections are caused only through the
 * shipped threshold path (allocation pressure).  Oracles: reachable => alive (C01),
 * finalised/freed exactly once by teardown (C06), registry == live managed set (C17),
 * true types / allocation classes / wrong deallocations (C19). */
#define _GNU_SOURCE
#include "cglue.h"

#ifdef CELLO_NGC
/* without a collector there is nothing for this engine to drive */
static const OpInfo NOOPS_[] = { { "nop", 0 } };
static void heap_gen_none(Plan* p, Rng* r) { (void)p; (void)r; }
static void heap_exec_none(const Plan* p) { (void)p; }
const Scenario scen_heap = { "heap", NOOPS_, 1, heap_gen_none, heap_exec_none, "C01" };
#else

enum { H_NEWNODE, H_NEWREF, H_NEWBOX, H_NEWCONT, H_LINK, H_UNLINK, H_SLOTSET, H_SLOTCLR,
       H_TLSSET, H_TLSREM, H_DEL, H_BURST, H_STOP, H_START, H_CHAIN, H_BADFREE, H_COPY, H_REGHOLD, H_BADNEW, H_EXITPROG, H_NOPS };
static const OpInfo OPS[H_NOPS] = {
  [H_NEWNODE] = { "newnode", 2 },   /* slot cls */
  [H_NEWREF]  = { "newref", 3 },    /* slot target cls */
  [H_NEWBOX]  = { "newbox", 3 },    /* slot depth cls */
  [H_NEWCONT] = { "newcont", 3 },   /* slot kind cls */
  [H_LINK]    = { "link", 3 },      /* src dst arg */
  [H_UNLINK]  = { "unlink", 2 },    /* src arg */
  [H_SLOTSET] = { "slotset", 2 },   /* slot obj */
  [H_SLOTCLR] = { "slotclr", 1 },   /* slot */
  [H_TLSSET]  = { "tlsset", 2 },    /* key obj */
  [H_TLSREM]  = { "tlsrem", 1 },    /* key */
  [H_DEL]     = { "del", 1 },       /* obj */
  [H_BURST]   = { "burst", 1 },     /* n */
  [H_STOP]    = { "stop", 0 },
  [H_START]   = { "start", 0 },
  [H_CHAIN]   = { "chain", 2 },     /* slot n */
  [H_BADFREE] = { "badfree", 2 },   /* kind x */
  [H_COPY]    = { "copy", 2 },      /* slot obj */
  [H_BADNEW]  = { "badnew", 1 },    /* kind: a constructor call that raises (the allocation is already registered) */
  [H_EXITPROG] = { "exitprog", 3 }, /* mode n seed: a separate Cello program (the library's own main macro, no simulator underneath) that ends
                                       by return / exit() in a callee / exit() inside try / an uncaught exception / after a worker thread */
  [H_REGHOLD] = { "reghold", 1 },   /* n: a fresh object referenced from a callee-saved register only while n allocations run */
};

enum { HK_NODE, HK_REF, HK_BOX, HK_ARR, HK_LST, HK_TBLV, HK_TBLK, HK_TREV, HK_TREK, HK_TUP, HK_JUNK, HK_RANGE, HK_SLICE, HK_OWNEDINT, HK_TYPEOBJ, HK_ARRN, HK_N };
static const char* HKNAME[] = { "Node", "Ref", "Box", "Array", "List", "TableV", "TableK", "TreeV", "TreeK", "Tuple", "Junk", "Range", "Slice", "OwnedInt", "Type", "ArrayOfNode" };
enum { CL_MANAGED, CL_ROOT, CL_RAW, CL_UNREG };

/* probe object: plain struct, no Mark instance => scanned conservatively */
struct Node { var f[3]; int64_t canary; int64_t oid; };
#define CANARY 0x5AFEC0DE5AFEC0DELL
static void Node_Del(var self);
static void Node_Assign(var self, var obj);
static int g_dtor_alloc;
#define EMBEDDED_NODE (-2)
static int g_embed;      /* the Node being assigned to is an element stored by value in an Array of Nodes */
static void Node_New(var self, var args);
static var Node_T = Cello(Node, Instance(New, Node_New, Node_Del), Instance(Assign, Node_Assign));

#define MAXOBJ   (1 << 18)
#define MAXCONT  256
#define MAXE     96
#define NSLOT    16
#define NTLS     4

typedef struct {
  var      ptr;
  uint8_t  kind, cls, alive, registered;   /* alive: harness has not deleted it */
  uint8_t  finalised, freed, deferred, reach;
  int32_t  owner;          /* oid of the Box that owns this object, -1 none */
  int32_t  e[3];           /* NODE fields / REF,BOX target */
  int32_t  cidx;           /* container model index */
} Obj;
typedef struct { int n; int32_t tgt[MAXE]; int64_t key[MAXE]; } CModel;

static Obj*    O;          /* harness memory: never scanned by the collector */
static int     g_nobj;
static CModel* CM; static int g_ncm;
static volatile var* g_slots;
static int     g_slot_oid[NSLOT];
static int     g_tls_oid[NTLS];
static int     g_stopped;
static int     g_torn_down;
static int     g_opidx;
static long    g_collections_seen;    /* sweeps proven by a finalised junk/garbage object */
static int     g_avoid;
static uint32_t* g_seenmark; static uint32_t g_seen_id;

/* header address -> oid (open addressing), for the free hook */
#define PMAP_BITS 19
static struct { uintptr_t a; int32_t oid; }* PM;
static void pmap_put(void* hdr, int oid) {
  uint64_t h = ((uintptr_t)hdr >> 4) * 0x9E3779B97F4A7C15ULL; uint32_t i = (uint32_t)(h >> (64 - PMAP_BITS));
  for (;; i = (i + 1) & ((1u << PMAP_BITS) - 1)) { if (PM[i].a == 0 || PM[i].a == (uintptr_t)hdr) { PM[i].a = (uintptr_t)hdr; PM[i].oid = oid; return; } }
}
static int pmap_get(void* hdr) {
  uint64_t h = ((uintptr_t)hdr >> 4) * 0x9E3779B97F4A7C15ULL; uint32_t i = (uint32_t)(h >> (64 - PMAP_BITS));
  for (;; i = (i + 1) & ((1u << PMAP_BITS) - 1)) { if (PM[i].a == 0) return -1; if (PM[i].a == (uintptr_t)hdr) return PM[i].oid; }
}

static void* hdr_of(var p) { return (char*)p - sizeof(struct Header); }

#define HV(prop, cls, ...) do { viol(prop, cls, __VA_ARGS__); } while (0)
static int g_focus;
/* the exactly-once ledger speaks for C06; while the C05 check runs, faults about a Box or what it owns are C05's ("every
 * object owned through a Box is finalised exactly once") */
#define LV(oid, cls6, ...) do { int o__ = (oid); int box__ = o__ >= 0 && (O[o__].kind == HK_BOX || (O[o__].owner >= 0 && O[O[o__].owner].kind == HK_BOX)); \
  if (g_focus == 5 && box__) { char c5__[128]; snprintf(c5__, sizeof c5__, "C05:box%s", (cls6) + 3); viol("C05", c5__, __VA_ARGS__); } \
  if (g_focus == 19) { char c19__[128]; snprintf(c19__, sizeof c19__, "C19:heap-object%s", (cls6) + 3); viol("C19", c19__, __VA_ARGS__); } \
  if (g_focus == 17) { char c17__[128]; snprintf(c17__, sizeof c17__, "C17:registry%s", (cls6) + 3); viol("C17", c17__, __VA_ARGS__); } \
  if (g_focus == 12) { char c12__[128]; snprintf(c12__, sizeof c12__, "C12:after-failed-call%s", (cls6) + 3); viol("C12", c12__, __VA_ARGS__); } \
  viol("C06", cls6, __VA_ARGS__); } while (0)

static void on_free_hook(void* p, size_t size, int tag) {
  (void)size;
  if (tag != TAG_OBJ) return;
  int oid = pmap_get(p);
  if (oid < 0) return;
  Obj* o = &O[oid];
  if (o->ptr != (char*)p + sizeof(struct Header)) return;   /* stale mapping of a reused address */
  if (o->freed) LV(oid, "C06:released-twice", "object #%d (%s) released twice", oid, HKNAME[o->kind]);
  if (o->kind == HK_NODE && !o->finalised)
    LV(oid, "C06:released-without-finalisation", "Node #%d released but its destructor never ran", oid);
  o->freed = 1;
  if (o->kind == HK_JUNK || !o->alive || !o->reach) g_collections_seen++;
  /* an owner (Box, Range, Slice) that goes takes what it owns with it: its destructor deletes the owned object, whatever that
   * object's own class is and whether or not the sweep in progress had collected it as well */
  if ((o->kind == HK_BOX || o->kind == HK_RANGE || o->kind == HK_SLICE) && o->alive)
    for (int i = 0; i < g_nobj; i++) if (O[i].owner == oid && O[i].alive) { O[i].alive = 0; stat_add("heap.owned_dies_with_swept_owner", 1); }
}

static int new_obj(var p, int kind, int cls);
static void Node_Del(var self) {
  struct Node* n = self;
  int oid = (int)n->oid;
  if (n->oid == EMBEDDED_NODE) { stat_add("heap.embedded_node_finalised", 1); return; }   /* an element of an Array of Nodes: no ledger entry of its own */
  if (oid < 0 || oid >= g_nobj || O[oid].ptr != self) HV("C06", "C06:finalised-garbage", "Node destructor ran on bytes that are not a ledger object");
  if (O[oid].finalised) LV(oid, "C06:finalised-twice", "Node #%d finalised twice", oid);
  O[oid].finalised = 1;
  /* destructors that allocate: registrations (and possibly threshold crossings) in the middle of a sweep / a del / a teardown */
  if (g_dtor_alloc && !g_stopped && !g_torn_down && g_nobj < 60000) {   /* (bounded: the long-chain plans stay cheap) */
    for (int i = 0; i < g_dtor_alloc; i++) { var j = new(Int, $I(i)); new_obj(j, HK_JUNK, CL_MANAGED); }
    stat_add("heap.destructor_allocations", g_dtor_alloc);
  }
}

static int new_obj(var p, int kind, int cls) {
  if (g_nobj >= MAXOBJ) HV("C01", "C01:harness:ledger-full", "object ledger full");
  int oid = g_nobj++;
  Obj* o = &O[oid];
  memset(o, 0, sizeof *o);
  o->ptr = p; o->kind = (uint8_t)kind; o->cls = (uint8_t)cls; o->alive = 1;
  o->registered = (cls == CL_MANAGED || cls == CL_ROOT);
  o->owner = -1; o->e[0] = o->e[1] = o->e[2] = -1; o->cidx = -1;
  if ((kind >= HK_ARR && kind <= HK_TUP) || kind == HK_ARRN) {
    if (g_ncm >= MAXCONT) HV("C01", "C01:harness:containers", "too many containers");
    o->cidx = g_ncm; CM[g_ncm].n = 0; g_ncm++;
  }
  arena_tag(hdr_of(p), TAG_OBJ);
  pmap_put(hdr_of(p), oid);
  /* C19: constructing type, heap allocation class, size(type) usable bytes */
  var want = kind == HK_NODE ? Node_T : kind == HK_REF ? Ref : kind == HK_BOX ? Box : kind == HK_ARR ? Array : kind == HK_LST ? List :
             (kind == HK_TBLV || kind == HK_TBLK) ? Table : (kind == HK_TREV || kind == HK_TREK) ? Tree : kind == HK_TUP ? Tuple :
             kind == HK_RANGE ? Range : kind == HK_SLICE ? Slice : kind == HK_TYPEOBJ ? Type : kind == HK_ARRN ? Array : Int;
  if (type_of(p) isnt want) HV("C19", "C19:wrong-type:new", "new %s has type %s", HKNAME[kind], c_str(type_of(p)));
#if CELLO_ALLOC_CHECK == 1
  if (header(p)->alloc isnt (var)AllocHeap) HV("C19", "C19:wrong-alloc-class:new", "new %s is not tagged AllocHeap", HKNAME[kind]);
#endif
  if (arena_block_size(hdr_of(p)) < sizeof(struct Header) + size(want))
    HV("C19", "C19:size-mismatch:new", "block of new %s has %zu bytes, header+size(type) is %zu", HKNAME[kind], arena_block_size(hdr_of(p)), sizeof(struct Header) + size(want));
  return oid;
}

static int cls_norm(int64_t c) {
  int k = (int)(((c % 8) + 8) % 8);
  int cls = k < 5 ? CL_MANAGED : k < 7 ? CL_ROOT : CL_RAW;
  if (g_stopped && cls != CL_RAW) cls = CL_UNREG;
  return cls;
}

/* ------------------------------------------------------- shadow reachability */
static int32_t* g_stack; /* BFS work list */
static int obj_traversed(const Obj* o) {
  /* raw / unregistered objects are invisible to the collector: their fields keep nothing alive */
  return o->alive && (o->cls == CL_MANAGED || o->cls == CL_ROOT);
}
static void reach_push(int oid, int* sp) {
  if (oid < 0) return;
  Obj* o = &O[oid];
  if (!o->alive || o->reach) return;
  o->reach = 1;
  g_stack[(*sp)++] = oid;
}
static void compute_reach(void) {
  int sp = 0;
  for (int i = 0; i < g_nobj; i++) O[i].reach = 0;
  for (int s = 0; s < NSLOT; s++) reach_push(g_slot_oid[s], &sp);
  for (int k = 0; k < NTLS; k++) reach_push(g_tls_oid[k], &sp);
  for (int i = 0; i < g_nobj; i++) if (O[i].alive && O[i].cls == CL_ROOT) reach_push(i, &sp);
  while (sp > 0) {
    Obj* o = &O[g_stack[--sp]];
    if (!obj_traversed(o)) continue;
    for (int k = 0; k < 3; k++) reach_push(o->e[k], &sp);
    if (o->cidx >= 0) { CModel* m = &CM[o->cidx]; for (int k = 0; k < m->n; k++) reach_push(m->tgt[k], &sp); }
  }
}

static void dump_shadow(void) {
  if (!sim_verbose) return;
  for (int i = 0; i < g_nobj; i++) {
    Obj* o = &O[i];
    if (o->kind == HK_JUNK) continue;
    fprintf(stderr, "  #%d %s cls=%d alive=%d reach=%d fin=%d freed=%d owner=%d e=[%d %d %d] p=%p", i, HKNAME[o->kind], o->cls, o->alive, o->reach, o->finalised, o->freed, o->owner, o->e[0], o->e[1], o->e[2], o->ptr);
    if (o->cidx >= 0) { CModel* m = &CM[o->cidx]; fprintf(stderr, " items="); for (int k = 0; k < m->n; k++) fprintf(stderr, "%d ", m->tgt[k]); }
    fprintf(stderr, "\n");
  }
  for (int s = 0; s < NSLOT; s++) if (g_slot_oid[s] >= 0) fprintf(stderr, "  slot%d=#%d", s, g_slot_oid[s]);
  for (int k = 0; k < NTLS; k++) if (g_tls_oid[k] >= 0) fprintf(stderr, "  tls%d=#%d", k, g_tls_oid[k]);
  fprintf(stderr, "\n");
}

static const char* path_kind(int oid) {
  /* how the shadow graph reaches oid: used in violation classes */
  for (int s = 0; s < NSLOT; s++) if (g_slot_oid[s] == oid) return "stack";
  for (int k = 0; k < NTLS; k++) if (g_tls_oid[k] == oid) return "tls";
  if (O[oid].cls == CL_ROOT) return "root";
  for (int i = 0; i < g_nobj; i++) {
    Obj* p = &O[i];
    if (!p->alive || !p->reach || !obj_traversed(p)) continue;
    for (int k = 0; k < 3; k++) if (p->e[k] == oid) return p->kind == HK_NODE ? "via-struct-field" : p->kind == HK_REF ? "via-Ref" : "via-Box";
    if (p->cidx >= 0) { CModel* m = &CM[p->cidx]; for (int k = 0; k < m->n; k++) if (m->tgt[k] == oid) return HKNAME[p->kind]; }
  }
  return "?";
}

/* C01 oracle: everything the shadow graph reaches is alive */
static void check_reachable_alive(const char* when) {
  compute_reach();
  var gc = g_torn_down ? NULL : current(GC);
  long nreach = 0, nonstack = 0;
  for (int i = 0; i < g_nobj; i++) {
    Obj* o = &O[i];
    if (!o->alive || !o->reach) continue;
    nreach++;
    char cls[128];
    if (g_focus == 5) {
      /* the C05 check: only what is owned through a Box (and the Boxes themselves) - finalised while still held */
      int boxish = o->kind == HK_BOX || (o->owner >= 0 && O[o->owner].kind == HK_BOX);
      if (boxish && (o->finalised || o->freed)) {
        snprintf(cls, sizeof cls, "C05:box:finalised-while-still-held:%s", HKNAME[o->kind]);
        HV("C05", cls, "object #%d (%s, owned through a Box or a Box itself) was finalised while the shadow graph still reaches it, %s", i, HKNAME[o->kind], when);
      }
      continue;
    }
    if (o->finalised || o->freed || arena_state(hdr_of(o->ptr)) != BLK_LIVE) {
      dump_shadow();
      snprintf(cls, sizeof cls, "C01:reclaimed-while-reachable:%s:path=%s", HKNAME[o->kind], path_kind(i));
      HV("C01", cls, "object #%d (%s) was %s although the shadow graph reaches it (%s), %s", i, HKNAME[o->kind],
         o->finalised ? "finalised" : "freed", path_kind(i), when);
    }
    if (o->kind == HK_NODE && ((struct Node*)o->ptr)->canary != CANARY) {
      snprintf(cls, sizeof cls, "C01:canary-destroyed:%s:path=%s", HKNAME[o->kind], path_kind(i));
      HV("C01", cls, "object #%d lost its canary word, %s", i, when);
    }
    if (gc && o->registered && !g_stopped && o->kind >= HK_ARR && o->kind <= HK_TUP && !mem(gc, o->ptr)) {
      snprintf(cls, sizeof cls, "C01:reachable-container-unregistered:%s", HKNAME[o->kind]);
      HV("C01", cls, "container #%d reachable but mem(gc) is false, %s", i, when);
    }
    int direct = 0;
    for (int s = 0; s < NSLOT; s++) if (g_slot_oid[s] == i) direct = 1;
    if (!direct) nonstack++;
  }
  stat_max("heap.max_reachable", nreach);
  if (nonstack) stat_add("heap.checks_with_nonstack_reachable", 1);
}

/* C17 oracle: registry == set of live managed objects */
static void check_registry(const char* when) {
#if defined(CELLO_VERIF) && !defined(CELLO_NGC)
  if (g_torn_down) return;
  var gc = current(GC);
  size_t nslots, nitems, freenum; bool running;
  Cello_Verif_GC_Info(gc, &nslots, &nitems, NULL, NULL, NULL, &running, &freenum);
  long expect = 0;
  /* dead addresses first, before any successful lookup of this pass (a lookup cache must not answer for them) */
  for (int i = 0; i < g_nobj; i++) {
    Obj* o = &O[i];
    if (!o->freed) continue;
    int cur = pmap_get(hdr_of(o->ptr));
    if (cur >= 0 && cur != i && O[cur].ptr == o->ptr && !O[cur].freed) continue;
    if (mem(gc, o->ptr)) { HV("C17", "C17:dead-object-registered", "mem(gc) is true for reclaimed object #%d (%s), %s", i, HKNAME[o->kind], when); }
  }
  for (int i = 0; i < g_nobj; i++) {
    Obj* o = &O[i];
    int should = o->registered && !o->freed && !(o->alive == 0 && !o->deferred);
    /* an object the harness deleted while the collector was stopped may stay registered until a later collection */
    if (o->deferred && !o->freed) should = -1;
    if (o->freed) {
      /* a dead object's address: must not be reported unless a live ledger object sits there now */
      int cur = pmap_get(hdr_of(o->ptr));
      if (cur >= 0 && cur != i && O[cur].ptr == o->ptr && !O[cur].freed) continue;
      if (mem(gc, o->ptr)) { HV("C17", "C17:dead-object-registered", "mem(gc) is true for reclaimed object #%d (%s), %s", i, HKNAME[o->kind], when); }
      continue;
    }
    bool m = mem(gc, o->ptr);
    if (should == 1) expect++;
    if (should == -1) { if (m) expect++; continue; }
    if (should == 1 && !m) { char c[96]; snprintf(c, sizeof c, "C17:live-object-missing:%s", HKNAME[o->kind]); HV("C17", c, "mem(gc) is false for live managed object #%d (%s), %s", i, HKNAME[o->kind], when); }
    if (should == 0 && m) { char c[96]; snprintf(c, sizeof c, "C17:unmanaged-object-registered:%s", HKNAME[o->kind]); HV("C17", c, "mem(gc) is true for object #%d (%s, class %d, alive %d), %s", i, HKNAME[o->kind], o->cls, o->alive, when); }
  }
  /* white box: each registered pointer once, root flag as allocated, count matches, marks clear */
  long seen = 0;
  g_seen_id++;
  static size_t last_slots;
  if (last_slots && nslots > last_slots) stat_add("reg.grow", 1);
  if (last_slots && nslots < last_slots) stat_add("reg.shrink", 1);
  last_slots = nslots;
  stat_max("reg.max_slots", (long)nslots);
  for (size_t s = 0; s < nslots; s++) {
    var p; uint64_t h; bool root, marked;
    if (!Cello_Verif_GC_Slot(gc, s, &p, &h, &root, &marked)) continue;
    seen++;
    int oid = pmap_get(hdr_of(p));
    if (oid < 0 || O[oid].ptr != p) HV("C17", "C17:unknown-entry", "registry holds %p which no ledger object owns, %s", p, when);
    Obj* o = &O[oid];
    if (o->freed) HV("C17", "C17:dead-object-registered", "registry holds reclaimed object #%d, %s", oid, when);
    if (root != (o->cls == CL_ROOT)) HV("C17", "C17:root-flag-wrong", "object #%d registered with root=%d but allocated as class %d, %s", oid, (int)root, o->cls, when);
    if (marked) HV("C17", "C17:mark-left-set", "object #%d still marked outside a collection, %s", oid, when);
    if ((size_t)(h - 1) > s) stat_add("reg.probe_wrapped", 1);
    if (g_seenmark[oid] == g_seen_id) HV("C17", "C17:duplicate-entry", "object #%d registered twice, %s", oid, when);
    g_seenmark[oid] = g_seen_id;
  }
  if ((size_t)seen != nitems) HV("C17", "C17:count-mismatch", "registry count %zu but %ld occupied slots, %s", nitems, seen, when);
  if (seen != expect) HV("C17", "C17:count-mismatch", "registry holds %ld entries, ledger expects %ld, %s", seen, expect, when);
#else
  (void)when;
#endif
}

/* ---------------------------------------------------------------- helpers */
static int candidates(int32_t* out, int cap, int want_container) {
  int n = 0;
  for (int i = 0; i < g_nobj && n < cap; i++) {
    Obj* o = &O[i];
    if (!o->alive || o->kind == HK_JUNK || o->owner >= 0) continue;
    if (!(o->reach || o->cls == CL_ROOT || o->cls == CL_RAW || o->cls == CL_UNREG)) continue;
    if (o->kind >= HK_RANGE && o->kind != HK_ARRN && want_container == 1) continue;
    if (want_container == 1 && o->cidx < 0 && o->kind != HK_NODE && o->kind != HK_REF) continue;
    out[n++] = i;
  }
  return n;
}
static int pick_obj(int64_t a, int want_src) {
  static int32_t c[8192];
  int n = candidates(c, 8192, want_src);
  if (!n) return -1;
  return c[(int)(((a % n) + n) % n)];
}

static var alloc_by_cls(var T, int cls, var args) {
  switch (cls) { case CL_ROOT: return new_root_with(T, args); case CL_RAW: return new_raw_with(T, args); default: return new_with(T, args); }
}

static void slot_store(int s, int oid) {
  g_slots[s] = oid >= 0 ? O[oid].ptr : NULL;
  g_slot_oid[s] = oid;
}

static void kill_obj(int oid);
static void shadow_drop_edges_to(int oid) {
  for (int s = 0; s < NSLOT; s++) if (g_slot_oid[s] == oid) { g_slot_oid[s] = -1; g_slots[s] = NULL; }
  for (int k = 0; k < NTLS; k++) if (g_tls_oid[k] == oid) g_tls_oid[k] = -1;
  for (int i = 0; i < g_nobj; i++) {
    Obj* o = &O[i];
    for (int k = 0; k < 3; k++) if (o->e[k] == oid) o->e[k] = -1;
    if (o->cidx >= 0) { CModel* m = &CM[o->cidx]; for (int k = 0; k < m->n; k++) if (m->tgt[k] == oid) m->tgt[k] = -1; }
  }
}
/* the harness view after an explicit deletion: the object is gone, and so is what it owns */
static void kill_obj(int oid) {
  Obj* o = &O[oid];
  if (!o->alive) return;
  o->alive = 0;
  if (g_stopped && o->registered) o->deferred = 1;
  shadow_drop_edges_to(oid);
  /* whatever it owns goes with it (Box -> object, Range -> its Int, Slice -> its Range) */
  for (int i = 0; i < g_nobj; i++) if (O[i].owner == oid && O[i].alive) kill_obj(i);
}

/* Node's own Assign: a plain field copy, or (deep copies) a copy that allocates a fresh managed Node for every child Node -
 * several collection points while the object being filled in is referenced only by the copy() in progress */
static int g_deep_copy;
static int new_obj(var p, int kind, int cls);
static int obj_traversed(const Obj* o);
static __attribute__((noinline)) var deep_kid(int so) {
  struct Node* sk = O[so].ptr;
  struct Node* k = new(Node_T);
  int oid = new_obj(k, HK_NODE, CL_MANAGED);
  k->canary = CANARY; k->oid = oid;
  /* the allocation above is a collection point: a source that was owned through a Box whose owner has just been swept is gone
   * (the program's own sharing of an owned object) - nothing is copied from it then */
  if (O[so].alive && !O[so].freed) for (int i = 0; i < 3; i++) { k->f[i] = sk->f[i]; O[oid].e[i] = O[so].e[i]; }
  stat_add("heap.deep_copy_children", 1);
  return k;
}
static int g_deep_kid[3];
/* Node's constructor may allocate child Nodes: collection points while the object under construction is referenced only by
 * the new() in progress */
static int g_ctor_kids; static int g_ctor_kid[3];
static __attribute__((noinline)) var ctor_kid(void) {
  int save = g_ctor_kids; g_ctor_kids = 0;
  struct Node* k = new(Node_T);
  g_ctor_kids = save;
  int oid = new_obj(k, HK_NODE, CL_MANAGED);
  k->canary = CANARY; k->oid = oid;
  stat_add("heap.constructor_children", 1);
  return k;
}
static void Node_New(var self, var args) {
  (void)args;
  struct Node* n = self;
  int nk = g_ctor_kids;
  if (nk <= 0) return;
  g_ctor_kid[0] = g_ctor_kid[1] = g_ctor_kid[2] = -1;
  for (int k = 0; k < nk && k < 3; k++) {
    n->f[k] = ctor_kid();
    g_ctor_kid[k] = (int)((struct Node*)n->f[k])->oid;
    sim_scrub_stack();
  }
}
static void Node_Assign(var self, var obj) {
  struct Node* d = self; struct Node* s = obj;
  memcpy(d, s, sizeof *d);
  g_deep_kid[0] = g_deep_kid[1] = g_deep_kid[2] = -1;
  if (g_embed) { d->oid = EMBEDDED_NODE; d->canary = CANARY; }
  if (!g_deep_copy) return;
  int src = (int)s->oid;
  /* an element under construction inside a container is not visible to the collector (List nodes, Table scratch entries and
   * Tree nodes are linked in only once both halves are assigned): a well-behaved Assign that allocates keeps what it has
   * allocated referenced from its own frame until it returns.  For a free-standing copy the object itself is registered
   * first, so there nothing is held. */
  volatile var hold[3] = { NULL, NULL, NULL };
  for (int k = 0; k < 3; k++) {
    int so;
    if (g_embed || src < 0) {       /* the source may itself be an embedded element: find the child through the pointer */
      so = s->f[k] ? pmap_get(hdr_of(s->f[k])) : -1;
      if (so >= 0 && O[so].ptr != s->f[k]) so = -1;
    } else so = O[src].e[k];
    if (so < 0 || O[so].kind != HK_NODE || !O[so].alive || O[so].freed || !obj_traversed(&O[so])) continue;   /* (a stale pointer in the source: not followed) */
    d->f[k] = NULL;
    d->f[k] = deep_kid(so);
    if (g_embed) hold[k] = d->f[k];
    g_deep_kid[k] = (int)((struct Node*)d->f[k])->oid;
    sim_scrub_stack();
  }
  (void)hold[0]; (void)hold[1]; (void)hold[2];
}

#ifndef CELLO_NGC
void Cello_Verif_GC_Info(var self, size_t* nslots, size_t* nitems, size_t* mitems, uintptr_t* minptr, uintptr_t* maxptr, bool* running, size_t* freenum);
#endif
static void do_burst(int n);
/* fault placement: allocate until the collector's next collection falls on the (d+1)-th registration from now, i.e. inside
 * the operation that follows (its 1st, 2nd, ... allocation) */
static void gc_prime(int d) {
#ifndef CELLO_NGC
  if (g_stopped) return;
  int collected = 0;
  for (int guard = 0; guard < 200000; guard++) {
    size_t nitems = 0, mitems = 0;
    Cello_Verif_GC_Info(current(GC), NULL, &nitems, &mitems, NULL, NULL, NULL, NULL);
    long gap = (long)mitems - (long)nitems;
    if (gap == d || (gap < d && collected)) break;
    long before = g_collections_seen;
    do_burst(1);
    size_t n2 = 0, m2 = 0;
    Cello_Verif_GC_Info(current(GC), NULL, &n2, &m2, NULL, NULL, NULL, NULL);
    if (g_collections_seen != before || (long)m2 - (long)n2 > gap) collected = 1;
  }
  stat_add("gc.primed_ops", 1);
#else
  (void)d;
#endif
}

static void do_burst(int n) {
#ifndef CELLO_NGC
  for (int i = 0; i < n; i++) { var j = new(Int, $I(i)); new_obj(j, HK_JUNK, g_stopped ? CL_UNREG : CL_MANAGED); if (g_stopped) { O[g_nobj-1].alive = 0; } }
  stat_add("gc.burst_allocs", n);
#endif
}

/* ------------------------------------------------------------------- ops */
static void op_newnode(const Op* op) {
  int s = (int)(((op->a[0] % NSLOT) + NSLOT) % NSLOT), cls = cls_norm(op->a[1]);
  if ((op->a[1] / 72) % 9 == 0) {
    /* a run-time type: allocated by Type's own Alloc instance, registered with the collector like any other object */
    var t = alloc_by_cls(Type, cls, tuple($S("RunTimeType"), $I(16)));
    int oid = new_obj(t, HK_TYPEOBJ, cls);
    slot_store(s, oid);
    stat_add("heap.new_runtime_type", 1);
    return;
  }
  int nk = (!g_stopped && (cls == CL_MANAGED || cls == CL_ROOT) && (op->a[1] / 8) % 3 == 0) ? 1 + (int)((op->a[1] / 24) % 3) : 0;
  g_ctor_kids = nk;
  struct Node* n = alloc_by_cls(Node_T, cls, tuple());
  g_ctor_kids = 0;
  int oid = new_obj(n, HK_NODE, cls);
  n->canary = CANARY; n->oid = oid;
  for (int k = 0; k < nk; k++) O[oid].e[k] = g_ctor_kid[k];
  if (nk) stat_add("heap.constructor_allocates", 1);
  slot_store(s, oid);
  stat_add(cls == CL_ROOT ? "heap.new_root" : cls == CL_RAW ? "heap.new_raw" : cls == CL_UNREG ? "heap.new_while_stopped" : "heap.new", 1);
}

static void op_newref(const Op* op) {
  int s = (int)(((op->a[0] % NSLOT) + NSLOT) % NSLOT), cls = cls_norm(op->a[2]);
  int t = pick_obj(op->a[1], 0);
  var r = alloc_by_cls(Ref, cls, tuple());
  int oid = new_obj(r, HK_REF, cls);
  if (t >= 0) { ref(r, O[t].ptr); O[oid].e[0] = t; }
  slot_store(s, oid);
  stat_add("heap.new_ref", 1);
}

static int pick_obj(int64_t a, int want_src);
static void op_newowner(const Op* op, int which) {
  /* heap Range owns a managed Int; heap Slice owns a Range (which owns an Int) and refers to an iterable */
  int s = (int)(((op->a[0] % NSLOT) + NSLOT) % NSLOT), cls = cls_norm(op->a[2]);
  if (cls == CL_RAW) cls = g_stopped ? CL_UNREG : CL_MANAGED;
  int inner = g_stopped ? CL_UNREG : CL_MANAGED;
  if (which == 1) {
    /* the iterable: some live sequence container */
    int it = -1;
    for (int k = 0; k < 6 && it < 0; k++) { int c = pick_obj(op->a[1] + k, 1); if (c >= 0 && (O[c].kind == HK_ARR || O[c].kind == HK_LST || O[c].kind == HK_TUP) && obj_traversed(&O[c])) it = c; }
    if (it < 0) which = 0;
    else {
      struct Slice* sl = cls == CL_ROOT ? (struct Slice*)new_root_with(Slice, tuple(O[it].ptr)) : (struct Slice*)new_with(Slice, tuple(O[it].ptr));
      int so = new_obj(sl, HK_SLICE, cls);
      slot_store(s, so);
      int ro = new_obj(sl->range, HK_RANGE, inner);
      int io = new_obj(((struct Range*)sl->range)->value, HK_OWNEDINT, inner);
      O[so].e[0] = ro; O[so].e[1] = it; O[ro].owner = so; O[ro].e[0] = io; O[io].owner = ro;
      stat_add("heap.new_slice", 1);
      return;
    }
  }
  struct Range* r = cls == CL_ROOT ? (struct Range*)new_root_with(Range, tuple($I(5))) : (struct Range*)new_with(Range, tuple($I(5)));
  int ro = new_obj(r, HK_RANGE, cls);
  slot_store(s, ro);
  int io = new_obj(r->value, HK_OWNEDINT, inner);
  O[ro].e[0] = io; O[io].owner = ro;
  stat_add("heap.new_range", 1);
}

static void op_newbox(const Op* op) {
  /* a Box that owns a fresh Node, or a Box owning a Box owning a Node: ownership chains */
  int s = (int)(((op->a[0] % NSLOT) + NSLOT) % NSLOT), cls = cls_norm(op->a[2]);
  int sel = (int)(((op->a[1] % 4) + 4) % 4);
  if (sel >= 2) { op_newowner(op, sel - 2); return; }
  int depth = 1 + sel;
  if (cls == CL_RAW) cls = g_stopped ? CL_UNREG : CL_MANAGED;
  int inner_cls = g_stopped ? CL_UNREG : CL_MANAGED;
  /* sometimes the owned Node is itself a root: never collected, so when its owner is swept the owner's destructor deletes an
   * object that is registered and not pending - a registry removal in the middle of a sweep */
  int inner_root = !g_stopped && ((op->a[1] / 4) % 3 == 0);
  struct Node* n = inner_root ? new_root_with(Node_T, tuple()) : new_with(Node_T, tuple());
  int noid = new_obj(n, HK_NODE, inner_root ? CL_ROOT : inner_cls);
  if (inner_root) stat_add("heap.box_owns_root", 1);
  n->canary = CANARY; n->oid = noid;
  slot_store(s, noid);                 /* keep it reachable while the owner is built */
  int owned = noid;
  for (int d = 0; d < depth; d++) {
    int c = d == depth - 1 ? cls : inner_cls;
    var b = c == CL_ROOT ? alloc_root(Box) : alloc(Box);
    ref(b, O[owned].ptr);
    int boid = new_obj(b, HK_BOX, c);
    O[boid].e[0] = owned; O[owned].owner = boid;
    slot_store(s, boid);
    owned = boid;
  }
  stat_add("heap.new_box", 1);
  if (depth > 1) stat_add("heap.new_box_chain", 1);
}

/* ---- an Array whose elements are Nodes stored by value; Node's Assign deep-copies, i.e. allocates managed children while the
 * container operation is in progress (collection points in the middle of push / push_at / set / assign / copy) */
static void arrn_sync(int oid) {
  /* the children the elements point at, read back from the Array itself (this part of the engine judges the collector, not
   * the sequence semantics of Array, which C04 covers) */
  CModel* m = &CM[O[oid].cidx];
  size_t n = len(O[oid].ptr); if (n > MAXE / 3) n = MAXE / 3;
  m->n = 0;
  for (size_t i = 0; i < n; i++) {
    struct Node* e = get(O[oid].ptr, $I((int64_t)i));
    if (e->canary != CANARY || e->oid != EMBEDDED_NODE) HV("C01", "C01:embedded-element-corrupt", "element %zu of an Array of Nodes is not an element any more", i);
    for (int k = 0; k < 3; k++) {
      int so = e->f[k] ? pmap_get(hdr_of(e->f[k])) : -1;
      if (so >= 0 && (O[so].ptr != e->f[k] || !O[so].alive)) so = -1;
      m->tgt[m->n++] = so;
    }
  }
}
static void arrn_store(int oid, int src, int mode, int64_t idx) {
  size_t n = len(O[oid].ptr);
  if (n >= MAXE / 3 - 1) mode = 2;
  if (n == 0) mode = 0;
  g_embed = 1; g_deep_copy = 1;
  if (mode == 0) push(O[oid].ptr, O[src].ptr);
  else if (mode == 1) push_at(O[oid].ptr, O[src].ptr, $I((int64_t)((uint64_t)idx % (n + 1))));
  else set(O[oid].ptr, $I((int64_t)((uint64_t)idx % n)), O[src].ptr);
  g_embed = 0; g_deep_copy = 0;
  arrn_sync(oid);
  stat_add("heap.array_of_nodes_store", 1);
}
static int pick_node(int64_t a) {
  for (int t = 0; t < 8; t++) { int q = pick_obj(a + t, 0); if (q >= 0 && O[q].kind == HK_NODE && obj_traversed(&O[q])) return q; }
  return -1;
}

static void op_newcont(const Op* op) {
  int s = (int)(((op->a[0] % NSLOT) + NSLOT) % NSLOT), cls = cls_norm(op->a[2]);
  int kind = HK_ARR + (int)(((op->a[1] % 7) + 7) % 7);
  var c;
  if ((op->a[1] / 21) % 5 == 0 && !g_stopped) {
    int q = pick_node(op->a[0]);
    if (q >= 0) {
      c = alloc_by_cls(Array, cls == CL_RAW ? CL_MANAGED : cls, tuple(Node_T));
      int aoid = new_obj(c, HK_ARRN, cls == CL_RAW ? CL_MANAGED : cls);
      slot_store(s, aoid);
      int cnt = 1 + (int)((op->a[1] / 105) % 3);
      for (int i = 0; i < cnt; i++) {
        compute_reach();            /* the slot just overwritten may have held the only reference to a candidate */
        int qq = pick_node(op->a[0] + 3 * i); if (qq >= 0) arrn_store(aoid, qq, i == 2 ? 1 : 0, op->a[2]); }
      stat_add("heap.new_array_of_nodes", 1);
      return;
    }
  }
  int retyped_from = -1;
  if ((kind == HK_ARR || kind == HK_LST) && ((op->a[1] / 7) % 3 == 0 || g_focus == 5)) {
    for (int t = 0; t < 6 && retyped_from < 0; t++) { int q = pick_obj(op->a[0] + t, 1);
      if (q >= 0 && (O[q].kind == HK_ARR || O[q].kind == HK_LST) && obj_traversed(&O[q]) && CM[O[q].cidx].n > 0) retyped_from = q; }
  }
  switch (kind) {
    case HK_ARR:  c = alloc_by_cls(Array, cls, retyped_from >= 0 ? tuple(Int) : tuple(Ref)); break;
    case HK_LST:  c = alloc_by_cls(List, cls, retyped_from >= 0 ? tuple(Float) : tuple(Ref)); break;
    case HK_TBLV: c = alloc_by_cls(Table, cls, tuple(Int, Ref)); break;
    case HK_TBLK: c = alloc_by_cls(Table, cls, tuple(Ref, Int)); break;
    case HK_TREV: c = alloc_by_cls(Tree, cls, tuple(Int, Ref)); break;
    case HK_TREK: c = alloc_by_cls(Tree, cls, tuple(Ref, Int)); break;
    default:      c = alloc_by_cls(Tuple, cls, tuple()); break;
  }
  int oid = new_obj(c, kind, cls);
  slot_store(s, oid);
  stat_add("heap.new_container", 1);
  if (retyped_from >= 0) {
    /* built for plain numbers, then given the contents (and so the element type) of a container of references */
    assign(c, O[retyped_from].ptr);
    CM[O[oid].cidx] = CM[O[retyped_from].cidx];
    stat_add("heap.container_retyped_by_assign", 1);
  }
}

#define ADVK (5LL*11*23*53)
static int64_t ckey(int64_t a) { int64_t k = ((a % 24) + 24) % 24; return 3 + k * ADVK; }

static int cm_find_key(CModel* m, int64_t key) { for (int i = 0; i < m->n; i++) if (m->key[i] == key) return i; return -1; }

static void op_link(const Op* op) {
  if ((op->a[2] / 97) % 11 == 0) {
    /* an occupied Box is assigned the object it already owns: nothing changes hands */
    for (int t = 0; t < g_nobj; t++) {
      int b = (int)(((op->a[0] + t) % g_nobj + g_nobj) % g_nobj);
      if (O[b].kind != HK_BOX || !O[b].alive || O[b].freed || O[b].e[0] < 0 || !O[O[b].e[0]].alive) continue;
      if (O[O[b].e[0]].kind != HK_NODE) continue;      /* (assign looks through a pointer-like operand: a Box of a Box would change owners) */
      if (!(O[b].reach || O[b].cls == CL_ROOT || O[b].cls == CL_UNREG)) continue;
      assign(O[b].ptr, O[O[b].e[0]].ptr);
      stat_add("heap.box_assigned_its_own_object", 1);
      return;
    }
  }
  int src = pick_obj(op->a[0], 1); if (src < 0) return;
  int dst = pick_obj(op->a[1], 0); if (dst < 0) return;
  if (g_focus == 5 && (op->a[1] & 1)) {        /* the C05 check: containers mostly refer to Boxes */
    for (int t = 0; t < 12; t++) { int q = pick_obj(op->a[1] + t, 0); if (q >= 0 && O[q].kind == HK_BOX) { dst = q; break; } }
  }
  Obj* s = &O[src]; var d = O[dst].ptr;
  int64_t a = op->a[2]; uint64_t ua = (uint64_t)(a < 0 ? -a : a);
  /* known finding (see known_findings.jsonl): a cycle made only of unregistered Tuples (new_raw, or allocated while the
   * collector was stopped) cannot be marked, so a collection that reaches it never terminates; steered around by default */
  if (s->kind == HK_TUP && O[dst].kind == HK_TUP && !s->registered && !O[dst].registered && !(g_avoid & 16)) return;
  /* an unregistered Tuple is invisible to the collector, so a managed object it names may be collected and the item dangle;
   * Tuple items are traced precisely (dereferenced), so the program must not let that happen: such Tuples only name
   * objects the collector never reclaims */
  if (s->kind == HK_TUP && !s->registered && O[dst].cls == CL_MANAGED) return;
  if (s->kind == HK_ARRN) {
    if (g_stopped) return;
    if (O[dst].kind == HK_ARRN && dst != src && obj_traversed(&O[dst])) {      /* the whole Array assigned from another one */
      g_embed = 1; g_deep_copy = 1; assign(s->ptr, d); g_embed = 0; g_deep_copy = 0;
      arrn_sync(src); stat_add("heap.array_of_nodes_assign", 1); return;
    }
    int q = O[dst].kind == HK_NODE && obj_traversed(&O[dst]) ? dst : pick_node(op->a[1]);
    if (q >= 0) arrn_store(src, q, (int)(ua % 3), (int64_t)(ua / 3));
    return;
  }
  if (s->kind == HK_NODE) { int f = (int)(ua % 3); ((struct Node*)s->ptr)->f[f] = d; s->e[f] = dst; stat_add("heap.link_field", 1); return; }
  if (s->kind == HK_REF) { ref(s->ptr, d); s->e[0] = dst; return; }
  if (s->cidx < 0) return;
  CModel* m = &CM[s->cidx];
  switch (s->kind) {
    case HK_ARR: case HK_LST: case HK_TUP: {
      int mode = (int)(ua % 4);
      if (m->n >= MAXE - 1) mode = 2;
      if (m->n == 0 && mode >= 2) mode = 0;
      var x = s->kind == HK_TUP ? d : (var)$R(d);
      if (mode < 2) { push(s->ptr, x); m->tgt[m->n++] = dst; }
      else if (mode == 2) { int i = (int)((ua / 4) % (uint64_t)m->n); set(s->ptr, $I(i), x); m->tgt[i] = dst; }
      else { int i = (int)((ua / 4) % (uint64_t)m->n); push_at(s->ptr, x, $I(i)); memmove(&m->tgt[i + 1], &m->tgt[i], sizeof(int32_t) * (size_t)(m->n - i)); m->tgt[i] = dst; m->n++; }
      stat_add("heap.link_seq", 1);
      break; }
    case HK_TBLV: case HK_TREV: {
      int64_t k = ckey(a);
      int i = cm_find_key(m, k);
      if (i < 0 && m->n >= MAXE - 1) return;
      set(s->ptr, $I(k), $R(d));
      if (i < 0) { i = m->n++; m->key[i] = k; }
      m->tgt[i] = dst;
      stat_add("heap.link_mapval", 1);
      break; }
    case HK_TBLK: case HK_TREK: {
      int64_t k = (int64_t)(uintptr_t)d;
      int i = cm_find_key(m, k);
      if (i < 0 && m->n >= MAXE - 1) return;
      set(s->ptr, $R(d), $I(a));
      if (i < 0) { i = m->n++; m->key[i] = k; }
      m->tgt[i] = dst;
      stat_add("heap.link_mapkey", 1);
      break; }
    default: break;
  }
}

static void op_unlink(const Op* op) {
  int src = pick_obj(op->a[0], 1); if (src < 0) return;
  Obj* s = &O[src];
  int64_t a = op->a[1]; uint64_t ua = (uint64_t)(a < 0 ? -a : a);
  if (s->kind == HK_NODE) { int f = (int)(ua % 3); ((struct Node*)s->ptr)->f[f] = NULL; s->e[f] = -1; return; }
  if (s->kind == HK_REF) { ref(s->ptr, NULL); s->e[0] = -1; return; }
  if (s->cidx < 0) return;
  if (s->kind == HK_ARRN) {
    size_t n = len(s->ptr); if (n == 0) return;
    int md = (int)(ua % 8);
    if (md == 7) resize(s->ptr, 0); else if (md < 3) pop(s->ptr); else pop_at(s->ptr, $I((int64_t)((ua / 8) % n)));
    arrn_sync(src); stat_add("heap.unlink_container", 1); return;
  }
  CModel* m = &CM[s->cidx];
  if (m->n == 0) return;
  int mode = (int)(ua % 8);
  if (mode == 7) {
    if (s->kind == HK_TUP) { while (m->n) { pop(s->ptr); m->n--; } }
    else resize(s->ptr, 0);
    m->n = 0; stat_add("heap.container_clear", 1); return;
  }
  int i = (int)((ua / 8) % (uint64_t)m->n);
  switch (s->kind) {
    case HK_ARR: case HK_LST: case HK_TUP:
      if (mode < 3) { pop(s->ptr); m->n--; }
      else { pop_at(s->ptr, $I(i)); memmove(&m->tgt[i], &m->tgt[i + 1], sizeof(int32_t) * (size_t)(m->n - i - 1)); m->n--; }
      break;
    case HK_TBLV: case HK_TREV:
      rem(s->ptr, $I(m->key[i]));
      m->key[i] = m->key[m->n - 1]; m->tgt[i] = m->tgt[m->n - 1]; m->n--;
      break;
    case HK_TBLK: case HK_TREK: {
      var kp = (var)(uintptr_t)m->key[i];
      rem(s->ptr, $R(kp));
      m->key[i] = m->key[m->n - 1]; m->tgt[i] = m->tgt[m->n - 1]; m->n--;
      break; }
    default: break;
  }
  stat_add("heap.unlink_container", 1);
}

static int named_by_live_tuple(int oid) {
  for (int i = 0; i < g_nobj; i++) if (O[i].alive && !O[i].freed && O[i].kind == HK_TUP) { CModel* m = &CM[O[i].cidx]; for (int k = 0; k < m->n; k++) if (m->tgt[k] == oid) return 1; }
  return 0;
}
static void op_del(const Op* op) {
  int oid = pick_obj(op->a[0], 0); if (oid < 0) return;
  Obj* o = &O[oid];
  var p = o->ptr; int cls = o->cls;
  /* a Tuple's items are the program's own direct pointers (traced precisely, not conservatively):
   * deleting an object a live Tuple still names would be the program's use-after-free, not the collector's */
  if (named_by_live_tuple(oid)) return;
  /* the harness view first: nothing may refer to the object any more */
  kill_obj(oid);
  switch (cls) { case CL_ROOT: del_root(p); break; case CL_RAW: del_raw(p); break; default: del(p); break; }
  stat_add(cls == CL_ROOT ? "heap.del_root" : cls == CL_RAW ? "heap.del_raw" : cls == CL_UNREG ? "heap.del_unregistered" : (g_stopped ? "heap.del_while_stopped" : "heap.del"), 1);
  if (O[oid].kind == HK_BOX) stat_add("heap.del_box", 1);
  if (O[oid].kind == HK_RANGE || O[oid].kind == HK_SLICE) stat_add("heap.del_owner_view", 1);
}

static void op_chain(const Op* op) {
  int s = (int)(((op->a[0] % NSLOT) + NSLOT) % NSLOT);
  int64_t n = op->a[1] < 1 ? 1 : op->a[1];
  if (n > 200000) n = 200000;
  if (g_nobj + n + 8 >= MAXOBJ) return;
  int cls = g_stopped ? CL_UNREG : CL_MANAGED;
  int prev = -1;
  for (int64_t i = 0; i < n; i++) {
    struct Node* x = new_with(Node_T, tuple());
    int oid = new_obj(x, HK_NODE, cls);
    x->canary = CANARY; x->oid = oid;
    if (prev >= 0) { x->f[0] = O[prev].ptr; O[oid].e[0] = prev; }
    slot_store(s, oid);
    prev = oid;
  }
  stat_max("heap.max_chain", (long)n);
}

static void op_copy(const Op* op) {
  int s = (int)(((op->a[0] % NSLOT) + NSLOT) % NSLOT);
  int src = pick_obj(op->a[1], 0); if (src < 0 || g_stopped) return;
  Obj* o = &O[src];
  if (o->kind == HK_ARRN) {
    if (!obj_traversed(o)) return;
    g_embed = 1; g_deep_copy = 1; var cc = copy(o->ptr); g_embed = 0; g_deep_copy = 0;
    int coid = new_obj(cc, HK_ARRN, CL_MANAGED);
    slot_store(s, coid);
    arrn_sync(coid); stat_add("heap.array_of_nodes_copy", 1);
    return;
  }
  if (o->kind == HK_BOX || o->kind == HK_JUNK || o->kind >= HK_RANGE) return;   /* copying a Box would give one object two owners; copy of a heap Range assigns into a NULL value */
  if (!obj_traversed(o)) return;   /* fields of raw / unregistered objects may dangle (the collector never saw them) */
  if ((o->kind == HK_TBLK || o->kind == HK_TREK)) return;
  g_deep_copy = (o->kind == HK_NODE && (op->a[1] / 7) % 2 == 1);
  var c = copy(o->ptr);
  o = &O[src];
  int kind = o->kind;
  int oid = new_obj(c, kind, CL_MANAGED);
  int was_deep = g_deep_copy; g_deep_copy = 0;
  if (was_deep) stat_add("heap.deep_copy", 1);
  if (kind == HK_NODE) { ((struct Node*)c)->oid = oid; for (int k = 0; k < 3; k++) O[oid].e[k] = g_deep_kid[k] >= 0 ? g_deep_kid[k] : o->e[k]; }
  else if (kind == HK_REF) O[oid].e[0] = o->e[0];
  else if (O[oid].cidx >= 0) { CM[O[oid].cidx] = CM[o->cidx]; }
  slot_store(s, oid);
  stat_add("heap.copy", 1);
}

/* a root kind of its own: the only reference to a fresh object sits in a callee-saved register while collections run */
#if defined(__x86_64__) && defined(__GNUC__)
static __attribute__((noinline)) void op_reghold(const Op* op) {
  if (g_stopped) return;
  int n = 4 + (int)(((op->a[0] % 60) + 60) % 60);
  register struct Node* keep asm("r15");
  keep = new_with(Node_T, tuple());
  int oid = new_obj(keep, HK_NODE, CL_MANAGED);
  keep->canary = CANARY; keep->oid = oid;
  /* wipe dead frames below us so that no stale copy of the pointer survives on the stack */
  sim_scrub_stack();
  do_burst(n);
  struct Node* volatile now = keep;
  if (O[oid].finalised || O[oid].freed || arena_state(hdr_of(now)) != BLK_LIVE)
    HV("C01", "C01:reclaimed-while-reachable:Node:path=register", "object #%d referenced only from a callee-saved register was reclaimed during %d allocations", oid, n);
  if (now->canary != CANARY) HV("C01", "C01:canary-destroyed:Node:path=register", "object #%d lost its canary", oid);
  stat_add("heap.register_root", 1);
  slot_store(0, oid);      /* from here on it is an ordinary stack-rooted object */
}
#else
static void op_reghold(const Op* op) { (void)op; }
#endif

/* a constructor that raises: new() has already allocated and registered the object, which is then garbage the program never
 * sees; later collections and the teardown must reclaim it (and whatever it already owns) without incident */
static void op_badnew(const Op* op) {
  if (g_stopped) return;
  int kind = (int)(((op->a[0] % 4) + 4) % 4);
  var volatile ex = NULL;
  switch (kind) {
    case 0: try { new(Range, $I(1), $I(2), $I(3), $I(4)); } catch (e) { ex = e; } break;        /* too many arguments */
    case 1: try { new(Table, Int, Int, $I(1)); } catch (e) { ex = e; } break;                    /* odd number of key/value arguments */
    case 2: try { new_with(Slice, tuple()); } catch (e) { ex = e; } break;                        /* too few arguments */
    default: try { new(Tree, Int); } catch (e) { ex = e; } break;                                 /* value type missing */
  }
  if (ex is NULL) HV("C12", "C12:no-exception:bad-constructor", "a constructor with invalid arguments raised nothing");
  stat_add("heap.failed_constructor", 1);
}

/* "... or at the latest at program exit": a real program, every way of ending it */
#include <sys/wait.h>
#include <fcntl.h>
static void op_exitprog(const Op* op) {
  char exe[512]; ssize_t l = readlink("/proc/self/exe", exe, sizeof exe - 16);
  if (l <= 0) return;
  exe[l] = 0; char* sl = strrchr(exe, '/'); if (!sl) return; strcpy(sl + 1, "exitprog");
  if (access(exe, X_OK) != 0) return;                       /* configurations that do not build it */
  int mode = (int)(((op->a[0] % 5) + 5) % 5), n = 5 + (int)(((op->a[1] % 120) + 120) % 120);
  char am[16], an[16], as[32]; snprintf(am, sizeof am, "%d", mode); snprintf(an, sizeof an, "%d", n); snprintf(as, sizeof as, "%lld", (long long)op->a[2]);
  int pp[2]; if (pipe(pp)) return;
  pid_t pid = fork();
  if (pid == 0) {
    alarm(20);
    int dn = open("/dev/null", O_WRONLY); if (dn >= 0) { dup2(dn, 2); dup2(dn, 1); }
    /* the report channel is fd 3 of the program (the read end may be sitting on 3 here: move the write end out of the way first) */
    int w = fcntl(pp[1], F_DUPFD, 10); close(pp[0]); close(pp[1]);
    dup2(w, 3); close(w);
    execl(exe, exe, am, an, as, (char*)NULL);
    _exit(99);
  }
  close(pp[1]);
  static char buf[1 << 16]; size_t got = 0; ssize_t r;
  while (got < sizeof buf - 1 && (r = read(pp[0], buf + got, sizeof buf - 1 - got)) > 0) got += (size_t)r;
  buf[got] = 0; close(pp[0]);
  int st = 0; waitpid(pid, &st, 0);
  static unsigned char made[4096], fin[4096]; memset(made, 0, sizeof made); memset(fin, 0, sizeof fin);
  long nc = 0, nd = 0;
  for (char* p = buf; *p; ) { char w = *p; long id = strtol(p + 1, NULL, 10); if (id > 0 && id < 4096) { if (w == 'c') { made[id]++; nc++; } else if (w == 'd') { fin[id]++; nd++; } } p = strchr(p, '\n'); if (!p) break; p++; }
  static const int want_rc[5] = { 0, 0, 7, 1, 0 };
  ev("exitprog mode=%d n=%d made=%ld", mode, n, nc);
  if (!WIFEXITED(st)) HV("C06", "C06:program-exit:crashed", "a program ending by mode %d died with signal %d", mode, WIFSIGNALED(st) ? WTERMSIG(st) : -1);
  if (WEXITSTATUS(st) == 99) return;
  if (nc < n) HV("C06", "C06:harness:program-exit-report", "the program reported %ld constructions, at least %d expected", nc, n);
  if (WEXITSTATUS(st) != want_rc[mode]) HV("C06", "C06:program-exit:status", "a program ending by mode %d exited with status %d, expected %d", mode, WEXITSTATUS(st), want_rc[mode]);
  for (int id = 1; id < 4096; id++) {
    if (made[id] && fin[id] == 0) { char c[96]; snprintf(c, sizeof c, "C06:program-exit:left-behind:mode%d", mode); HV("C06", c, "object %d of a program ending by mode %d (%ld objects) was never finalised", id, mode, nc); }
    if (fin[id] > 1) { char c[96]; snprintf(c, sizeof c, "C06:program-exit:finalised-twice:mode%d", mode); HV("C06", c, "object %d of a program ending by mode %d was finalised %d times", id, mode, fin[id]); }
  }
  (void)nd;
  stat_add("heap.program_exit_runs", 1);
  { char k[40]; snprintf(k, sizeof k, "heap.program_exit_mode%d", mode); stat_add(k, 1); }
}

/* C19: deallocating operations applied to stack / static objects */
static var badfree_accept(var x) { return x; }
static void op_badfree(const Op* op) {
  int kind = (int)(((op->a[0] % 14) + 14) % 14);
  var volatile ex = NULL;
  const char* what = "?"; int changed = 0;
  char cls[128];
  progress(g_opidx, "C19", "badfree");
  int allow_none = 0;
  switch (kind) {
    case 0: { var x = $I(41); what = "dealloc-stack-int"; try { dealloc(x); } catch (e) { ex = e; } changed = c_int(x) != 41; break; }
    case 1: { if (g_avoid & 2) return; var x = $I(42); what = "del-stack-int"; try { del(x); } catch (e) { ex = e; } changed = c_int(x) != 42; break; }
    case 2: { var x = $I(43); what = "del_raw-stack-int"; try { del_raw(x); } catch (e) { ex = e; } changed = c_int(x) != 43; break; }
    case 3: { char lit[8] = "lit"; var x = $S(lit); what = "del_raw-stack-string"; try { del_raw(x); } catch (e) { ex = e; } changed = strcmp(lit, "lit") != 0 || c_str(x) != lit; break; }
    case 4: { what = "dealloc-static-type"; try { dealloc(Int); } catch (e) { ex = e; } changed = type_of(Int) isnt Type; break; }
    case 5: { if (g_avoid & 2) return; what = "del-static-type"; try { del(Float); } catch (e) { ex = e; } changed = type_of(Float) isnt Type; break; }
    case 6: { var a = $I(1), b = $I(2); var t = tuple(a, b); what = "destruct-stack-tuple"; try { destruct(t); } catch (e) { ex = e; } changed = len(t) != 2 || get(t, $I(0)) isnt a; break; }
    case 7: { var a = $I(1), b = $I(2); var t = tuple(a, b); what = "push-stack-tuple"; try { push(t, a); } catch (e) { ex = e; } changed = len(t) != 2 || get(t, $I(1)) isnt b; break; }
    case 8: { var a = $I(1), b = $I(2); var t = tuple(a, b); what = "pop_at-stack-tuple"; try { pop_at(t, $I(0)); } catch (e) { ex = e; } changed = len(t) != 2 || get(t, $I(0)) isnt a || get(t, $I(1)) isnt b; break; }
    case 9: { var a = $I(1), b = $I(2); var t = tuple(a, b); what = "resize-stack-tuple"; try { resize(t, 1); } catch (e) { ex = e; } changed = len(t) != 2; break; }
    case 10: { var a = $I(1), b = $I(2); var t = tuple(a, b); what = "concat-stack-tuple"; try { concat(t, tuple(a)); } catch (e) { ex = e; } changed = len(t) != 2; break; }
    case 12: { var a = $I(1), b = $I(2); var t = tuple(a, b); what = "assign-stack-tuple"; try { assign(t, tuple(b, a, b)); } catch (e) { ex = e; } changed = len(t) != 2 || get(t, $I(0)) isnt a || get(t, $I(1)) isnt b; break; }
    case 13: { /* a source that can only be iterated (a Filter): the refusal comes from the element-wise push */
               var a = $I(1), b = $I(2); var t = tuple(a, b); what = "assign-stack-tuple-from-filter";
               try { assign(t, filter(tuple(b, a), $(Function, badfree_accept))); } catch (e) { ex = e; }
               changed = len(t) != 2 || get(t, $I(0)) isnt a || get(t, $I(1)) isnt b; break; }
    default: { var a = $I(1), b = $I(2); var t = tuple(a, b); what = "pop-stack-tuple"; try { pop(t); } catch (e) { ex = e; } changed = len(t) != 2 || get(t, $I(1)) isnt b; break; }
  }
  { char k[64]; snprintf(k, sizeof k, "bad.%s", what); stat_add(k, 1); }
  stat_add("bad.injected", 1);
  if (changed) { snprintf(cls, sizeof cls, "C19:non-heap-object-changed:%s", what); HV("C19", cls, "%s changed the stack/static object", what); }
  if (ex is NULL && !allow_none) { snprintf(cls, sizeof cls, "C19:no-exception:%s", what); HV("C19", cls, "%s raised nothing", what); }
  if (ex isnt NULL && ex isnt ResourceError && ex isnt ValueError) { snprintf(cls, sizeof cls, "C19:wrong-exception:%s", what); HV("C19", cls, "%s raised %s", what, exc_name(ex)); }
}

/* ------------------------------------------------------------ execution */
static void heap_nontrivial(void);
static void heap_final_checks(const Plan* p);
static long g_freed_before_teardown;

static void heap_execute(const Plan* p) {
  volatile var slots[NSLOT];
  for (int i = 0; i < NSLOT; i++) { slots[i] = NULL; g_slot_oid[i] = -1; }
  for (int i = 0; i < NTLS; i++) g_tls_oid[i] = -1;
  g_slots = slots;
  O = harness_alloc(sizeof(Obj) * MAXOBJ);
  CM = harness_alloc(sizeof(CModel) * MAXCONT);
  PM = harness_alloc(sizeof(*PM) << PMAP_BITS);
  g_stack = harness_alloc(sizeof(int32_t) * MAXOBJ);
  g_seenmark = harness_alloc(sizeof(uint32_t) * MAXOBJ);
  g_avoid = (int)plan_env(p, "avoid_kf", 0);
  int focus = (int)plan_env(p, "focus", 1);
  g_focus = focus;
  g_dtor_alloc = (int)plan_env(p, "dtor.alloc", 0);
  arena_on_free = on_free_hook;
  static const char* tlskeys[NTLS] = { "tls0", "tls1", "tls2", "tls3" };
  for (int i = 0; i < p->nops; i++) {
    const Op* op = &p->ops[i];
    g_opidx = i;
    /* a crash / uncaught exception inside the engine counts against the property whose check is running: C01, C06 and C17
     * all require collections and deletions to run to completion */
    const char* prop = focus == 6 ? "C06" : focus == 5 ? "C05" : focus == 17 ? "C17" : focus == 19 ? "C19" : focus == 12 ? "C12" :
                       (op->code == H_DEL || op->code == H_STOP || op->code == H_START) ? "C06" : "C01";
    progress(i, prop, OPS[op->code].name);
    ev("op %d %s", i, OPS[op->code].name);
    compute_reach();
    if (op->fault >= 2) { progress(i, prop, "prime"); gc_prime(op->fault - 2); compute_reach(); progress(i, prop, OPS[op->code].name); }
    switch (op->code) {
      case H_NEWNODE: op_newnode(op); break;
      case H_NEWREF: op_newref(op); break;
      case H_NEWBOX: op_newbox(op); break;
      case H_NEWCONT: op_newcont(op); break;
      case H_LINK: op_link(op); break;
      case H_UNLINK: op_unlink(op); break;
      case H_SLOTSET: { int s = (int)(((op->a[0] % NSLOT) + NSLOT) % NSLOT); int o = pick_obj(op->a[1], 0); if (o >= 0) slot_store(s, o); break; }
      case H_SLOTCLR: { int s = (int)(((op->a[0] % NSLOT) + NSLOT) % NSLOT); slot_store(s, -1); stat_add("heap.root_drop", 1); break; }
      case H_TLSSET: { int k = (int)(((op->a[0] % NTLS) + NTLS) % NTLS); int o = pick_obj(op->a[1], 0); if (o >= 0) { set(current(Thread), $S((char*)tlskeys[k]), O[o].ptr); g_tls_oid[k] = o; stat_add("heap.tls_set", 1); } break; }
      case H_TLSREM: { int k = (int)(((op->a[0] % NTLS) + NTLS) % NTLS); if (g_tls_oid[k] >= 0 || mem(current(Thread), $S((char*)tlskeys[k]))) { rem(current(Thread), $S((char*)tlskeys[k])); g_tls_oid[k] = -1; } break; }
      case H_DEL: op_del(op); break;
      case H_BURST: do_burst((int)(((op->a[0] % 96) + 96) % 96) + 2); break;
      case H_STOP: if (!g_stopped) { stop(current(GC)); g_stopped = 1; stat_add("heap.stop", 1); } break;
      case H_START: if (g_stopped) { start(current(GC)); g_stopped = 0; stat_add("heap.start", 1); } break;
      case H_CHAIN: op_chain(op); break;
      case H_BADFREE: op_badfree(op); break;
      case H_COPY: op_copy(op); break;
      case H_REGHOLD: op_reghold(op); break;
      case H_BADNEW: op_badnew(op); break;
      case H_EXITPROG: op_exitprog(op); break;
      default: break;
    }
    if (op->fault == 1) { progress(i, prop, "burst"); do_burst(10); }
    sim_scrub_stack();
    /* each check evaluates its own property's oracle, so that a violation of one property never hides another's
     * (the exactly-once ledger of C06 lives in the destructor / free hooks and is always on) */
    if (focus == 0 || focus == 1 || focus == 19 || focus == 5) { progress(i, focus == 19 ? "C19" : focus == 5 ? "C05" : "C01", OPS[op->code].name); check_reachable_alive("after the operation"); }
    if (focus == 0 || focus == 17) { progress(i, "C17", OPS[op->code].name); check_registry("after the operation"); }
    progress(i, prop, OPS[op->code].name);
    ev("n=%d live=%ld", g_nobj, arena_live_count());
  }
  /* teardown: objects allocated while the collector was stopped are the program's to delete */
  progress(p->nops, focus == 17 ? "C17" : focus == 1 ? "C01" : focus == 5 ? "C05" : focus == 19 ? "C19" : focus == 12 ? "C12" : "C06", "teardown");
  if (g_stopped) { start(current(GC)); g_stopped = 0; }
  /* (not those a live Tuple still names: a destructor may allocate, a collection would then trace the Tuple's items) */
  for (int i = 0; i < g_nobj; i++) if (O[i].alive && O[i].cls == CL_UNREG && O[i].owner < 0 && O[i].kind != HK_JUNK && !named_by_live_tuple(i)) { var q = O[i].ptr; kill_obj(i); del(q); }
  for (int i = 0; i < NTLS; i++) if (g_tls_oid[i] >= 0) { rem(current(Thread), $S((char*)tlskeys[i])); g_tls_oid[i] = -1; }
  for (int i = 0; i < NSLOT; i++) slot_store(i, -1);
  sim_scrub_stack();
  g_freed_before_teardown = 0; for (int i = 0; i < g_nobj; i++) g_freed_before_teardown += O[i].freed;
  g_slots = NULL;
  if (plan_env(p, "inthread", 0)) { g_torn_down = 1; stat_add("heap.thread_mutators", 1); return; }   /* the thread's exit tears its collector down */
  Cello_Exit();
  g_torn_down = 1;
  heap_final_checks(p);
}

static void heap_final_checks(const Plan* p) {
  long swept = -g_freed_before_teardown; for (int i = 0; i < g_nobj; i++) swept += O[i].freed;
  stat_add("heap.freed_at_teardown", swept);
  progress(p->nops, g_focus == 17 ? "C17" : g_focus == 1 ? "C01" : g_focus == 5 ? "C05" : g_focus == 19 ? "C19" : g_focus == 12 ? "C12" : "C06", "teardown-check");
  for (int i = 0; i < g_nobj; i++) {
    Obj* o = &O[i];
    char cls[128];
    int must_be_gone = (o->cls == CL_MANAGED) || (!o->alive && (o->cls == CL_ROOT || o->cls == CL_RAW || o->cls == CL_UNREG));
    if (o->cls == CL_UNREG && o->kind == HK_JUNK) must_be_gone = 0;     /* junk allocated while stopped is never deleted by the harness */
    if (o->owner >= 0) { /* owned through a Box: gone iff its owner chain is gone */
      int w = o->owner; while (O[w].owner >= 0) w = O[w].owner;
      must_be_gone = (O[w].cls == CL_MANAGED) || !O[w].alive;
      if (O[w].cls == CL_UNREG && O[w].alive) must_be_gone = 0;
    }
    if (must_be_gone && !o->freed) {
      char ownedby[32]; snprintf(ownedby, sizeof ownedby, "owned-by-%s", o->owner >= 0 ? HKNAME[O[o->owner].kind] : "");
      const char* why = o->owner >= 0 ? ownedby : o->cls == CL_UNREG ? "allocated-while-stopped" : o->deferred ? "deleted-while-stopped" : !o->alive ? "explicitly-deleted" : "garbage";
      snprintf(cls, sizeof cls, "C06:never-released:%s:%s", HKNAME[o->kind], why);
      LV(i, cls, "object #%d (%s, %s) was never released by teardown", i, HKNAME[o->kind], why);
    }
    if (o->kind == HK_NODE && o->freed && !o->finalised) LV(i, "C06:released-without-finalisation", "Node #%d released without finalisation", i);
    if (o->kind == HK_NODE && must_be_gone && !o->finalised) { snprintf(cls, sizeof cls, "C06:never-finalised:%s", HKNAME[o->kind]); LV(i, cls, "Node #%d never finalised", i); }
  }
  stat_add("heap.objects", g_nobj);
  stat_add("heap.collections_seen", g_collections_seen);
  heap_nontrivial();
  g_slots = NULL;
}

static void heap_nontrivial(void) {
  int f = 0;
  /* the rule depends on the property the run was generated for (env focus) */
  long coll = stat_get("heap.collections_seen");
  if (g_focus == 6 || g_focus == 5) f = coll > 0 && (stat_get("heap.new_box") > 0 || stat_get("heap.stop") > 0) && stat_get("heap.freed_at_teardown") > 0;
  else if (g_focus == 17) f = coll > 0 && stat_get("reg.grow") >= 3 && stat_get("reg.shrink") >= 1;
  else if (g_focus == 12) f = coll > 0 && stat_get("heap.failed_constructor") > 0;
  else if (g_focus == 19) f = coll > 0;
  else if (coll > 0 && stat_get("heap.checks_with_nonstack_reachable") > 0) f = 1;
  if (f) mark_nontrivial();
}

/* ------------------------------------------------------------ generator */
static void heap_generate_random(Plan* p, Rng* r, int maxops);
static void heap_generate(Plan* p, Rng* r) {
  if (plan_env(p, "enum", 0)) {
    /* enumeration family: run index = base * 26 + v.  The base plan (<= 12 operations, no random bursts) is the same for all 26
     * members; member v < 13 places one allocation-pressure burst right after operation v (v = 12: none) - every collection
     * point of the plan in turn - and member v >= 13 cuts the plan after v - 13 operations - every teardown point in turn. */
    uint64_t base = p->run / 26; int v = (int)(p->run % 26);
    Rng rb; rng_seed(&rb, p->seed, base, STREAM_PLAN);
    heap_generate_random(p, &rb, 12);
    for (int i = 0; i < p->nops; i++) p->ops[i].fault = 0;
    if (v < 13) { if (v < p->nops) p->ops[v].fault = 1; }
    else if (v - 13 < p->nops) p->nops = v - 13;
    return;
  }
  heap_generate_random(p, r, 0);
}
static void heap_generate_random(Plan* p, Rng* r, int maxops) {
  int focus = (int)plan_env(p, "focus", 1);
  if (plan_env(p, "alloc.place", -1) < 0) {
    static const int pl[] = { PLACE_BUMP, PLACE_LIFO, PLACE_LIFO, PLACE_QUARANTINE, PLACE_SEEDED, PLACE_ADVERSARIAL, PLACE_ADVERSARIAL };
    int v = pl[rng_below(r, 7)];
    if (focus == 17 && rng_chance(r, 1, 2)) v = PLACE_ADVERSARIAL;
    plan_env_set(p, "alloc.place", v);
    if (v == PLACE_ADVERSARIAL) plan_env_set(p, "alloc.advmod", (int)rng_below(r, 3));
  }
  if (plan_env(p, "alloc.realloc", -1) < 0) plan_env_set(p, "alloc.realloc", (int)rng_below(r, 3));
  if (plan_env(p, "inthread", -1) < 0 && focus != 19) plan_env_set(p, "inthread", rng_chance(r, 1, 5));
  int nops = rng_chance(r, 6, 10) ? 10 + (int)rng_below(r, 50) : 60 + (int)rng_below(r, 240);
  if (maxops) nops = 4 + (int)rng_below(r, (uint32_t)maxops - 3);
  int stopped = 0;
  int allow_stop = (focus == 6 || focus == 5 || focus == 17 || focus == 0 || focus == 19 || focus == 12) && !(plan_env(p, "avoid_kf", 0) & 8);
  int badpct = focus == 19 ? 12 : 0;
  if (plan_env(p, "dtor.alloc", -1) < 0 && focus != 19) plan_env_set(p, "dtor.alloc", rng_chance(r, 1, 4) ? 1 + (int)rng_below(r, 3) : 0);
  for (int i = 0; i < nops && p->nops < MAXOPS - 4; i++) {
    uint32_t d = rng_below(r, 100);
    int fault = rng_chance(r, 1, 10);
    if (!fault && rng_chance(r, 1, 8)) fault = 2 + (int)rng_below(r, 6);   /* the next collection lands on this operation's n-th allocation */
    int64_t a = rng_below(r, 1000), b = rng_below(r, 1000), c = rng_below(r, 1000);
    if ((int)d < badpct) { plan_add(p, H_BADFREE, 0, 0, rng_below(r, 14), a, 0, 0, 0, 0); continue; }
    if (focus == 12 && d < 10) { plan_add(p, H_BADNEW, 0, 0, a, 0, 0, 0, 0, 0); continue; }
    d = rng_below(r, 100);
    if (d < 14) plan_add(p, H_NEWNODE, 0, fault, a, b, 0, 0, 0, 0);
    else if (d < 19) plan_add(p, H_NEWREF, 0, fault, a, b, c, 0, 0, 0);
    else if (d < (uint32_t)(focus == 6 ? 29 : focus == 5 ? 33 : 23)) plan_add(p, H_NEWBOX, 0, fault, a, focus == 5 ? b % 2 : b, c, 0, 0, 0);
    else if (d < 31) plan_add(p, H_NEWCONT, 0, fault, a, b, c, 0, 0, 0);
    else if (d < 56) plan_add(p, H_LINK, 0, fault, a, b, c, 0, 0, 0);
    else if (d < 64) plan_add(p, H_UNLINK, 0, fault, a, b, 0, 0, 0, 0);
    else if (d < 68) plan_add(p, H_SLOTSET, 0, fault, a, b, 0, 0, 0, 0);
    else if (d < 78) plan_add(p, H_SLOTCLR, 0, fault, a, 0, 0, 0, 0, 0);
    else if (d < 81) plan_add(p, H_TLSSET, 0, fault, a, b, 0, 0, 0, 0);
    else if (d < 83) plan_add(p, H_TLSREM, 0, fault, a, 0, 0, 0, 0, 0);
    else if (d < (uint32_t)(focus == 6 || focus == 17 ? 91 : 87)) plan_add(p, H_DEL, 0, fault, a, 0, 0, 0, 0, 0);
    else if (d < 93) plan_add(p, H_BURST, 0, 0, a, 0, 0, 0, 0, 0);
    else if (d < 95) { if (allow_stop) { plan_add(p, stopped ? H_START : H_STOP, 0, 0, 0, 0, 0, 0, 0, 0); stopped = !stopped; } else plan_add(p, H_BURST, 0, 0, a, 0, 0, 0, 0, 0); }
    else if (d < 97) plan_add(p, H_COPY, 0, fault ? fault : (rng_chance(r, 1, 2) ? 2 + (int)rng_below(r, 6) : 0), a, b, 0, 0, 0, 0);
    else if (d < 98) {
      if ((focus == 6 || focus == 0) && rng_chance(r, 1, 2)) plan_add(p, H_EXITPROG, 0, 0, a, b, c, 0, 0, 0);
      else plan_add(p, (focus == 6 || focus == 5 || focus == 12) ? H_BADNEW : H_REGHOLD, 0, 0, a, 0, 0, 0, 0, 0); }
    else { int64_t n = rng_chance(r, 1, 4) ? 1000 + rng_below(r, 9000) : 5 + rng_below(r, 300); if (focus == 17 || maxops) n = 5 + rng_below(r, 200); plan_add(p, H_CHAIN, 0, 0, a, n, 0, 0, 0, 0); }
  }
}

static const Plan* g_thread_plan;
static var heap_thread_entry(var args) { (void)args; heap_execute(g_thread_plan); return NULL; }
static void heap_execute_entry(const Plan* p) {
  if (!plan_env(p, "inthread", 0)) { heap_execute(p); return; }
  /* the mutator is a Cello worker thread: its collector is the one Thread_Init_Run creates, and the teardown that ends the
   * plan is the thread's exit instead of Cello_Exit */
  g_thread_plan = p;
  var t = new_raw(Thread, $(Function, heap_thread_entry));
  call(t);
  join(t);
  del_raw(t);
  /* roots outlive their thread's collector by design: whoever joins releases them, and that must be their one finalisation */
  progress(p->nops, g_focus == 5 ? "C05" : "C06", "del_root-after-thread-exit");
  for (int i = 0; i < g_nobj; i++) if (O[i].alive && O[i].cls == CL_ROOT) {
    /* a root that owns managed objects (Box, Range, Slice) is left alone: the teardown has already swept what it owned, which is
     * how the shipped design treats the referents of surviving roots, and deleting it now would be the program's double delete */
    if (O[i].kind == HK_BOX || O[i].kind == HK_RANGE || O[i].kind == HK_SLICE || O[i].owner >= 0) continue;
    var q = O[i].ptr;
    if (O[i].freed || O[i].finalised) LV(i, "C06:root-released-by-teardown", "root object #%d (%s) was released by its thread's teardown although nobody called del_root", i, HKNAME[O[i].kind]);
    kill_obj(i);
    del_root(q);
    stat_add("heap.del_root_after_thread_exit", 1);
  }
  heap_final_checks(p);
}

const Scenario scen_heap = { "heap", OPS, H_NOPS, heap_generate, heap_execute_entry, "C01" };
#endif /* CELLO_NGC */
