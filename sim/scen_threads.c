/* Scenario engine "threads": 2-16 real Cello threads serialised by the baton scheduler.
 * Every thread runs seeded workloads (container work, allocation-heavy work with many
 * collections, exception-heavy work, thread-local storage, mutex sections) and produces
 * a digest that must equal the digest of the same workload run alone.  Serves C13. */
#define _GNU_SOURCE
#include "cglue.h"

enum { T_WORK, T_MUTEX, T_NOPS };
static const OpInfo OPS[T_NOPS] = {
  [T_WORK]  = { "work", 3 },    /* kind n seed   (t= thread) */
  [T_MUTEX] = { "mutex", 3 },   /* style rounds which-mutex */
};
enum { W_CONT, W_ALLOC, W_EXC, W_TLS, W_NKINDS };
static const char* WNAME[] = { "container", "alloc", "exception", "tls" };

#define MAXTH 17
#define MAXW  24
typedef struct { int code, a0, a1, a2; } WOp;
typedef struct { WOp w[MAXW]; int n; uint64_t expect[MAXW]; uint64_t got[MAXW]; volatile int done_flag; volatile uint64_t result; int simtid; } TPlan;
static TPlan* TP;
static int g_nth;

/* ---- probe object finalised by its own thread's collector only */
struct TNode { var link; int64_t owner; int64_t serial; };
static void TNode_Del(var self);
static var TNode_T = Cello(TNode, Instance(New, NULL, TNode_Del));
static volatile long g_tnode_new[MAXTH], g_tnode_fin[MAXTH];
static void TNode_Del(var self) {
  struct TNode* n = self;
  int me = sched_self();
  if (n->owner < 0 || n->owner >= MAXTH) viol("C13", "C13:finalised-garbage", "a TNode destructor ran on garbage");
  if (me != n->owner) viol("C13", "C13:finalised-by-other-thread", "object allocated by thread %d was finalised by the collector of thread %d", (int)n->owner, me);
  g_tnode_fin[n->owner]++;
}

static uint64_t mix(uint64_t h, uint64_t v) { h ^= v + 0x9E3779B97F4A7C15ULL + (h << 6) + (h >> 2); return h * 0xff51afd7ed558ccdULL; }

/* ------------------------------------------------------------ workloads */
static uint64_t work_cont(int n, int seed) {
  uint64_t h = 17;
  var t = new_raw(Table, Int, Int);
  var a = new_raw(Array, Int);
  for (int i = 0; i < n; i++) {
    int64_t k = (int64_t)((i * 7 + seed) % 23) * 1265 + 3;
    set(t, $I(k), $I(i + seed));
    if (i % 3 == 2) { int64_t r = (int64_t)(((i - 2) * 7 + seed) % 23) * 1265 + 3; if (mem(t, $I(r))) rem(t, $I(r)); }
    push(a, $I((i * 31 + seed) % 17));
    if (i % 5 == 4) pop_at(a, $I(0));
    sim_yield(SITE_EXPLICIT);
  }
  /* threads sort with different comparison functions at overlapping times */
  if (seed & 1) sort_by(a, gt); else sort(a);
  { int64_t prev = 0; int first = 1;
    foreach (x in a) { int64_t v = c_int(x);
      if (!first && ((seed & 1) ? v > prev : v < prev)) viol("C13", "C13:digest-differs:cont", "an Array sorted inside a thread is out of order (comparison function of another thread?)");
      prev = v; first = 0; h = mix(h, (uint64_t)v); } }
  h = mix(h, len(t));
  for (int k = 0; k < 23; k++) { int64_t kk = (int64_t)k * 1265 + 3; if (mem(t, $I(kk))) h = mix(h, (uint64_t)c_int(get(t, $I(kk)))); }
  del_raw(t); del_raw(a);
  return h;
}

static uint64_t work_alloc(int n, int seed) {
  /* many managed allocations => many collections in this thread's own collector; a few objects stay reachable */
  uint64_t h = 29;
  int me = sched_self();
  volatile var keep[4] = { NULL, NULL, NULL, NULL };
  for (int i = 0; i < n; i++) {
    struct TNode* x = new_with(TNode_T, tuple());
    x->owner = me; x->serial = i + seed;
    g_tnode_new[me]++;
    if (i % 7 == 0) { x->link = keep[(i / 7) % 4]; keep[(i / 7) % 4] = x; }
    var s = new(String, $S("payload"));
    append(s, $S("-x"));
    h = mix(h, len(s) + (uint64_t)x->serial);
    for (int k = 0; k < 4; k++) if (keep[k]) {
      struct TNode* kx = keep[k];
      if (kx->owner != me) viol("C13", "C13:foreign-object-in-local", "thread %d finds an object of thread %d in its own locals", me, (int)kx->owner);
      h = mix(h, (uint64_t)kx->serial);
    }
  }
  return h;
}

static uint64_t work_exc(int n, int seed) {
  uint64_t h = 31;
  for (int i = 0; i < n; i++) {
    var volatile got = NULL;
    try {
      try {
        if ((i + seed) % 3 == 0) throw(KeyError, "k %i", $I(i));
        if ((i + seed) % 3 == 1) get(tuple(), $I(5));
        h = mix(h, 1);
      } catch (e in KeyError) { got = e; h = mix(h, 2); }
      h = mix(h, 3);
    } catch (e in IndexOutOfBoundsError) { got = e; h = mix(h, 4); }
    if ((i + seed) % 3 == 0 && got isnt KeyError) viol("C13", "C13:exception-diverted", "thread %d: KeyError thrown, handler saw %s", sched_self(), exc_name(got));
    if ((i + seed) % 3 == 1 && got isnt IndexOutOfBoundsError) viol("C13", "C13:exception-diverted", "thread %d: IndexOutOfBoundsError thrown, handler saw %s", sched_self(), exc_name(got));
    if ((i + seed) % 3 == 2 && got isnt NULL) viol("C13", "C13:exception-diverted", "thread %d: nothing thrown, handler saw %s", sched_self(), exc_name(got));
    if (len(current(Exception)) != 0) viol("C13", "C13:exception-depth", "thread %d: nesting depth %zu between constructs", sched_self(), len(current(Exception)));
  }
  return h;
}

static uint64_t work_tls(int n, int seed) {
  uint64_t h = 37;
  int me = sched_self();
  var mine = new_raw(Int, $I(1000 * me + seed));
  var other = new_raw(Int, $I(-1));
  for (int i = 0; i < n; i++) {
    const char* key = (i & 1) ? "shared-key-a" : "shared-key-b";
    set(current(Thread), $S((char*)key), (i % 4 < 2) ? mine : other);
    sim_yield(SITE_EXPLICIT);
    var g = get(current(Thread), $S((char*)key));
    if (g isnt ((i % 4 < 2) ? mine : other)) viol("C13", "C13:tls-not-private", "thread %d reads a thread-local value it did not store", me);
    h = mix(h, (uint64_t)c_int(g));
    if (i % 3 == 2) { rem(current(Thread), $S((char*)key)); if (mem(current(Thread), $S((char*)key))) viol("C13", "C13:tls-not-private", "thread %d: removed key still present", me); }
  }
  if (mem(current(Thread), $S("shared-key-a"))) rem(current(Thread), $S("shared-key-a"));
  if (mem(current(Thread), $S("shared-key-b"))) rem(current(Thread), $S("shared-key-b"));
  /* the digest must not depend on the simulated thread id: subtract the id-dependent part */
  h = 37;
  for (int i = 0; i < n; i++) h = mix(h, (uint64_t)((i % 4 < 2) ? seed : -1));
  del_raw(mine); del_raw(other);
  return h;
}

/* mutex sections: non-atomic counter + in-section flag */
#define NMTX 2
static var g_mtx[NMTX];
static volatile long g_counter[NMTX], g_in_section[NMTX], g_expected[NMTX];
static void section(int m, int yields) {
  if (g_in_section[m]) viol("C13", "C13:mutex-overlap", "two critical sections of one Mutex overlap (thread %d entered)", sched_self());
  g_in_section[m] = 1;
  long c = g_counter[m];
  for (int y = 0; y < yields; y++) sim_yield(SITE_EXPLICIT);
  g_counter[m] = c + 1;
  if (!g_in_section[m]) viol("C13", "C13:mutex-overlap", "in-section flag cleared by another thread");
  g_in_section[m] = 0;
}
static uint64_t work_mutex(int style, int rounds, int which) {
  int m = ((which % NMTX) + NMTX) % NMTX;
  for (int i = 0; i < rounds; i++) {
    switch (((style % 4) + 4) % 4) {
      case 0: lock(g_mtx[m]); section(m, 1 + i % 3); unlock(g_mtx[m]); break;
      case 1: { int spins = 0; while (!trylock(g_mtx[m])) { sim_pause(); if (++spins > 100000) viol("C13", "C13:trylock-livelock", "trylock never succeeds"); }
                section(m, 1); unlock(g_mtx[m]); stat_add("thr.trylock_spins", spins); break; }
      case 2: with (mm in g_mtx[m]) { section(m, 2); } break;
      default: /* try first, wait if it is taken */
        if (!trylock(g_mtx[m])) { stat_add("thr.trylock_failed_then_lock", 1); lock(g_mtx[m]); }
        section(m, 1 + i % 2); unlock(g_mtx[m]); break;
    }
  }
  return (uint64_t)rounds;
}

static uint64_t run_wop(const WOp* w) {
  if (w->code == T_MUTEX) return work_mutex(w->a0, 1 + ((w->a1 % 12) + 12) % 12, w->a2);
  int n = 2 + ((w->a1 % 40) + 40) % 40;
  switch (((w->a0 % W_NKINDS) + W_NKINDS) % W_NKINDS) {
    case W_CONT: return work_cont(n, w->a2 % 1000);
    case W_ALLOC: return work_alloc(n * 3, w->a2 % 1000);
    case W_EXC: return work_exc(n, w->a2 % 1000);
    default: return work_tls(n, w->a2 % 1000);
  }
}

static var thread_entry(var args) {
  int th = (int)c_int(get(args, $I(0)));
  TPlan* tp = &TP[th];
  tp->simtid = sched_self();
  uint64_t r = 0;
  for (int i = 0; i < tp->n; i++) { tp->got[i] = run_wop(&tp->w[i]); r = mix(r, tp->got[i]); }
  tp->result = r;
  tp->done_flag = 1;
  return NULL;
}

static void threads_execute(const Plan* p) {
  g_nth = (int)plan_env(p, "threads", 3); if (g_nth < 1) g_nth = 1; if (g_nth > MAXTH - 1) g_nth = MAXTH - 1;
  TP = harness_alloc(sizeof(TPlan) * MAXTH);
  for (int i = 0; i < p->nops; i++) {
    const Op* o = &p->ops[i];
    int th = 1 + (o->tid % g_nth);
    TPlan* tp = &TP[th];
    if (tp->n < MAXW) { WOp* w = &tp->w[tp->n++]; w->code = o->code; w->a0 = (int)o->a[0]; w->a1 = (int)o->a[1]; w->a2 = (int)o->a[2]; }
  }
  for (int m = 0; m < NMTX; m++) { g_mtx[m] = new_raw(Mutex); g_counter[m] = 0; }
  /* reference: every non-mutex workload run alone, before any other thread exists */
  progress(0, "C13", "reference");
  for (int th = 1; th <= g_nth; th++) for (int i = 0; i < TP[th].n; i++) {
    WOp* w = &TP[th].w[i];
    if (w->code == T_MUTEX) { int m = ((w->a2 % NMTX) + NMTX) % NMTX; g_expected[m] += 1 + ((w->a1 % 12) + 12) % 12; TP[th].expect[i] = (uint64_t)(1 + ((w->a1 % 12) + 12) % 12); }
    else if (((w->a0 % W_NKINDS) + W_NKINDS) % W_NKINDS == W_ALLOC) TP[th].expect[i] = 0;    /* filled below */
    else TP[th].expect[i] = run_wop(w);
  }
  /* the allocation workload's digest does not depend on the thread; compute it once in the main thread as tid 0 */
  for (int th = 1; th <= g_nth; th++) for (int i = 0; i < TP[th].n; i++) {
    WOp* w = &TP[th].w[i];
    if (w->code == T_WORK && ((w->a0 % W_NKINDS) + W_NKINDS) % W_NKINDS == W_ALLOC) TP[th].expect[i] = run_wop(w);
  }
  long ref_new0 = g_tnode_new[0];
  progress(1, "C13", "threads");
  /* in some plans the main thread is inside a critical section while the workers start */
  int main_holds = (int)plan_env(p, "main_holds", 0);
  if (main_holds) { int m = (main_holds - 1) % NMTX; if (main_holds <= NMTX) lock(g_mtx[m]); else if (!trylock(g_mtx[m])) viol("C13", "C13:trylock-model-mismatch", "trylock of a free mutex failed"); g_expected[m] += 1; }
  /* Thread objects as the documentation creates them - new(Thread, f), i.e. registered with the creating thread's collector -
   * or raw; with managed threads the main thread keeps allocating (and so collecting) while the workers run */
  int managed = (int)plan_env(p, "managed_threads", 0);
  var th_obj[MAXTH], th_arg[MAXTH];
  for (int th = 1; th <= g_nth; th++) {
    th_obj[th] = managed ? new(Thread, $(Function, thread_entry)) : new_raw(Thread, $(Function, thread_entry));
    th_arg[th] = managed ? new(Int, $I(th)) : new_raw(Int, $I(th));
    call(th_obj[th], th_arg[th]);
  }
  if (managed) {
    int rounds = 2 + (managed % 7);
    for (int k = 0; k < rounds; k++) { for (int j = 0; j < 40; j++) new(Int, $I(j)); sim_pause(); }
    stat_add("thr.main_collects_while_workers_run", 1);
  }
  if (main_holds) { int m = (main_holds - 1) % NMTX; for (int k = 0; k < 3; k++) sim_pause(); section(m, 4); unlock(g_mtx[m]); stat_add("thr.main_in_section_at_start", 1); }
  /* join in a seeded order; immediately after join the thread's function has finished and its writes are visible */
  int order[MAXTH]; for (int i = 0; i < g_nth; i++) order[i] = i + 1;
  Rng r; rng_seed(&r, p->seed, p->run, STREAM_AUX);
  int jo = (int)plan_env(p, "join.order", 0);
  if (jo == 1) for (int i = 0; i < g_nth / 2; i++) { int t = order[i]; order[i] = order[g_nth - 1 - i]; order[g_nth - 1 - i] = t; }
  if (jo >= 2) for (int i = g_nth - 1; i > 0; i--) { int j = (int)rng_below(&r, (uint32_t)i + 1); int t = order[i]; order[i] = order[j]; order[j] = t; }
  for (int k = 0; k < g_nth; k++) {
    int th = order[k];
    int finished_before = TP[th].done_flag;
    join(th_obj[th]);
    if (!TP[th].done_flag) viol("C13", "C13:join-before-finish", "join returned although thread %d's function has not finished", th);
    if (!sched_thread_done(TP[th].simtid)) viol("C13", "C13:join-before-finish", "join returned although thread %d has not left its start routine", th);
    uint64_t rr = 0;
    for (int i = 0; i < TP[th].n; i++) {
      rr = mix(rr, TP[th].got[i]);
      if (TP[th].got[i] != TP[th].expect[i]) {
        WOp* w = &TP[th].w[i]; char cls[96];
        snprintf(cls, sizeof cls, "C13:digest-differs:%s", w->code == T_MUTEX ? "mutex" : WNAME[((w->a0 % W_NKINDS) + W_NKINDS) % W_NKINDS]);
        viol("C13", cls, "thread %d workload %d computed %llx, the same workload run alone computed %llx", th, i, (unsigned long long)TP[th].got[i], (unsigned long long)TP[th].expect[i]);
      }
    }
    if (rr != TP[th].result) viol("C13", "C13:join-effects-not-visible", "thread %d's result is not visible to the joiner", th);
    stat_add(finished_before ? "thr.join_after_finish" : "thr.join_before_finish", 1);
    /* teardown of that thread's collector must have finalised all of its objects, by itself */
    int st = TP[th].simtid;
    if (g_tnode_fin[st] != g_tnode_new[st]) viol("C06", "C06:thread-teardown-leak", "thread %d allocated %ld probe objects, %ld were finalised by its teardown", th, g_tnode_new[st], g_tnode_fin[st]);
  }
  for (int m = 0; m < NMTX; m++) {
    if (g_counter[m] != g_expected[m]) viol("C13", "C13:lost-update", "counter guarded by mutex %d is %ld after %ld increments", m, g_counter[m], g_expected[m]);
    del_raw(g_mtx[m]);
  }
  for (int th = 1; th <= g_nth; th++) { if (managed) { del(th_obj[th]); del(th_arg[th]); } else { del_raw(th_obj[th]); del_raw(th_arg[th]); } }
  (void)ref_new0;
  stat_add("thr.threads", g_nth);
  long coll_threads = 0; for (int t = 1; t < MAXTH; t++) if (g_tnode_new[t] > 20) coll_threads++;
  stat_add("thr.alloc_threads", coll_threads);
  if (sched_lib_switches >= 2 && coll_threads >= 2) mark_nontrivial();
}

static void threads_generate(Plan* p, Rng* r) {
  int nth = (int)plan_env(p, "threads", -1);
  if (nth < 0) { nth = rng_chance(r, 3, 4) ? 2 + (int)rng_below(r, 4) : 6 + (int)rng_below(r, 11); plan_env_set(p, "threads", nth); }
  plan_env_set(p, "join.order", (int)rng_below(r, 4));
  if (plan_env(p, "managed_threads", -1) < 0) plan_env_set(p, "managed_threads", rng_chance(r, 1, 2) ? 1 + (int)rng_below(r, 20) : 0);
  plan_env_set(p, "main_holds", rng_chance(r, 1, 3) ? 1 + (int)rng_below(r, 2 * NMTX) : 0);
  plan_env_set(p, "alloc.place", (int)rng_below(r, 3));
  if (rng_chance(r, 1, 2)) { plan_env_set(p, "sched.mode", 2); plan_env_set(p, "sched.chaos_den", 2 + (int)rng_below(r, 12)); }
  else {
    /* PCT-style: run to completion by default, a few seeded pre-emptions */
    plan_env_set(p, "sched.mode", 0);
    int d = 1 + (int)rng_below(r, 6);
    uint32_t ords[8];
    for (int i = 0; i < d; i++) ords[i] = rng_below(r, 400 * (uint32_t)nth);
    for (int i = 0; i < d; i++) for (int j = i + 1; j < d; j++) if (ords[j] < ords[i]) { uint32_t t = ords[i]; ords[i] = ords[j]; ords[j] = t; }
    for (int i = 0; i < d && p->nsched < MAXSCHED; i++) { if (i && ords[i] == ords[i - 1]) continue; p->sched[p->nsched].ord = ords[i]; p->sched[p->nsched].tid = (uint8_t)rng_below(r, (uint32_t)nth + 1); p->nsched++; }
  }
  for (int th = 0; th < nth; th++) {
    int nw = 1 + (int)rng_below(r, 4);
    for (int i = 0; i < nw; i++) {
      if (rng_chance(r, 1, 3)) { int64_t u3 = rng_below(r, NMTX), u2 = rng_below(r, 12), u1 = rng_below(r, 4); plan_add(p, T_MUTEX, th, 0, u1, u2, u3, 0, 0, 0); }
      else { int64_t w3 = rng_below(r, 1000), w2 = rng_below(r, 40), w1 = rng_below(r, W_NKINDS); plan_add(p, T_WORK, th, 0, w1, w2, w3, 0, 0, 0); }
    }
  }
}

const Scenario scen_threads = { "threads", OPS, T_NOPS, threads_generate, threads_execute, "C13" };
