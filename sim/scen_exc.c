/* Scenario engine "exc": seeded try/catch/throw program trees executed through the
 * real macros (lexical nesting inside one function and dynamic nesting through
 * calls), compared event by event with a reference interpreter of the same tree.
 * Programs may also run inside Cello worker threads (each thread its own tree).
 * Serves C07 (and the exception clause of C13). */
#define _GNU_SOURCE
#include "cglue.h"
#include <unistd.h>
#include <sys/wait.h>
#include <signal.h>

enum { E_NOP, E_THROW, E_LIBTHROW, E_TRY, E_CATCH, E_END, E_CALL, E_RET, E_GARBAGE, E_NOPS };
static const OpInfo OPS[E_NOPS] = {
  [E_NOP] = { "nop", 1 },      /* flags: 1 = a self-contained construct that throws a stack object and requires the handler to be bound to it; 2 = one whose filter elements' Cmp runs a try/catch */
  [E_THROW] = { "throw", 2 },  /* kind; flags: 1 = throw the twin (an equal but distinct object), 2 = a message argument whose Show
                                  handles an exception of its own, 4 = the collector's next registration collects */
  [E_LIBTHROW] = { "libthrow", 1 },
  [E_TRY] = { "try", 3 },      /* filtermask(6 bits, 0 = catch all; bits 6..11: that filter names the twin) arity lexical */
  [E_CATCH] = { "catch", 0 }, [E_END] = { "end", 0 }, [E_CALL] = { "call", 0 }, [E_RET] = { "ret", 0 },
  [E_GARBAGE] = { "garbage", 2 },   /* count of unreachable objects whose destructor handles an exception of its own; its kind */
};

#define NKIND 6
static var KIND(int k) {
  switch (k) { case 0: return IndexOutOfBoundsError; case 1: return KeyError; case 2: return ValueError;
               case 3: return TypeError; case 4: return ClassError; default: return FormatError; }
}
static const char* KNAME_[NKIND] = { "IndexOutOfBoundsError", "KeyError", "ValueError", "TypeError", "ClassError", "FormatError" };
/* twins: run-time type objects with the same names, so eq(KIND(k), TWIN(k)) holds although they are two objects; an exception
 * value is k (the built-in object) or k+8 (its twin).  Matching is by equality, binding must be by identity. */
static var g_twin[NKIND];
static var XOBJ(int x) { return (x & 8) ? g_twin[x & 7] : KIND(x & 7); }
static int kind_of(var e) { for (int k = 0; k < NKIND; k++) { if (e is KIND(k)) return k; if (e is g_twin[k]) return k + 8; } return -1; }

/* ---------------------------------------------------------- program tree */
enum { S_NOP, S_THROW, S_LIBTHROW, S_TRY, S_CALL, S_GARBAGE };
#define MAXNODE 512
typedef struct TNode {
  int kind, id, arg;
  int nf; int f[3]; int lexical;
  int body, nbody;        /* index range in child list */
  int hand, nhand;
} TNode;
typedef struct { TNode n[MAXNODE]; int nn; int child[MAXNODE * 2]; int nchild; int top, ntop; } Prog;

#define MAXTH 5
static Prog* P[MAXTH];
static int g_nolib;      /* C18: in-contract programs only, no library error paths */

/* tolerant parser: unmatched catch/end/ret are ignored, open constructs are closed at the end,
 * so any subsequence of a plan is again a program */
typedef struct { const Op* ops[MAXOPS]; int n, pos; } OpStream;

static int parse_block(Prog* p, OpStream* s, int* out_first, int stop_mask, int depth);
enum { STOP_CATCH = 1, STOP_END = 2, STOP_RET = 4 };

static int parse_stmt(Prog* p, OpStream* s, int depth) {
  const Op* o = s->ops[s->pos++];
  if (p->nn >= MAXNODE - 1) return -1;
  TNode* t = &p->n[p->nn]; int idx = p->nn++;
  memset(t, 0, sizeof *t); t->id = idx;
  switch (o->code) {
    case E_NOP: t->kind = S_NOP; t->arg = (int)(o->a[0] & 3); break;
    case E_THROW: t->kind = S_THROW; t->arg = (int)(((o->a[0] % NKIND) + NKIND) % NKIND) | ((o->a[1] & 1) ? 8 : 0); t->f[0] = (int)(o->a[1] & 6); break;
    case E_GARBAGE: t->kind = S_GARBAGE; t->arg = 1 + (int)(((o->a[0] % 8) + 8) % 8); t->f[0] = (int)(((o->a[1] % NKIND) + NKIND) % NKIND); break;
    case E_LIBTHROW: t->kind = g_nolib ? S_THROW : S_LIBTHROW; t->arg = (int)(((o->a[0] % NKIND) + NKIND) % NKIND); break;
    case E_CALL: {
      t->kind = S_CALL;
      if (depth > 40) { t->kind = S_NOP; break; }
      int first; int n = parse_block(p, s, &first, STOP_RET, depth + 1);
      t = &p->n[idx]; t->body = first; t->nbody = n;
      if (s->pos < s->n && s->ops[s->pos]->code == E_RET) s->pos++;
      break; }
    case E_TRY: {
      t->kind = S_TRY;
      int mask = (int)(o->a[0] & 63), ar = (int)(((o->a[1] % 4) + 4) % 4);
      t->lexical = (int)(o->a[2] & 1);
      if (depth > 40) { t->kind = S_NOP; break; }
      /* filters: up to `ar` distinct kinds taken from the mask bits in order, arity 0 = catch all */
      int ks[NKIND], nk = 0; for (int k = 0; k < NKIND; k++) if (mask & (1 << k)) ks[nk++] = k;
      /* never the same object twice: a Tuple's cursor is identity based, catch (e in A, A) would not terminate */
      if (nk == 0 || ar == 0) t->nf = 0; else { t->nf = ar < nk ? ar : nk; for (int i = 0; i < t->nf; i++) t->f[i] = ks[i] | (((o->a[0] >> (6 + ks[i])) & 1) ? 8 : 0); }
      int first; int n = parse_block(p, s, &first, STOP_CATCH | STOP_END, depth + 1);
      t = &p->n[idx]; t->body = first; t->nbody = n;
      if (s->pos < s->n && s->ops[s->pos]->code == E_CATCH) {
        s->pos++;
        n = parse_block(p, s, &first, STOP_END, depth + 1);
        t = &p->n[idx]; t->hand = first; t->nhand = n;
      }
      if (s->pos < s->n && s->ops[s->pos]->code == E_END) s->pos++;
      break; }
    default: t->kind = S_NOP; break;
  }
  return idx;
}

static int parse_block(Prog* p, OpStream* s, int* out_first, int stop_mask, int depth) {
  int tmp[256], n = 0;
  while (s->pos < s->n && n < 256) {
    int c = s->ops[s->pos]->code;
    if ((c == E_CATCH && (stop_mask & STOP_CATCH)) || (c == E_END && (stop_mask & STOP_END)) || (c == E_RET && (stop_mask & STOP_RET))) break;
    if (c == E_CATCH || c == E_END || c == E_RET) { s->pos++; continue; }   /* unmatched: ignored */
    int idx = parse_stmt(p, s, depth);
    if (idx < 0) break;
    tmp[n++] = idx;
  }
  *out_first = p->nchild;
  for (int i = 0; i < n && p->nchild < MAXNODE * 2; i++) p->child[p->nchild++] = tmp[i];
  return n;
}

/* ----------------------------------------------------------- event traces */
enum { EV_STMT = 1, EV_THROW, EV_HANDLER, EV_AFTER, EV_UNCAUGHT, EV_DONE };
typedef struct { int what, id, kind; } Ev;
#define MAXEV 4096
typedef struct { Ev e[MAXEV]; int n; } Trace;
static Trace* EXP[MAXTH];    /* expected (reference interpreter) */
static int g_pos[MAXTH];     /* how much of the expected trace the real run has confirmed */
static int g_trace_fd = -1;  /* in a forked uncaught-program child: events are shipped to the parent */

static void exp_emit(int th, int what, int id, int kind) {
  Trace* t = EXP[th]; if (t->n < MAXEV) { t->e[t->n].what = what; t->e[t->n].id = id; t->e[t->n].kind = kind; t->n++; }
}
static const char* evname(int w) { static const char* n[] = { "?", "stmt", "throw", "handler", "after", "uncaught", "done" }; return n[w]; }

static void act_emit(int th, int what, int id, int kind) {
  if (g_trace_fd >= 0) { Ev e = { what, id, kind }; (void)!write(g_trace_fd, &e, sizeof e); return; }
  Trace* t = EXP[th];
  int i = g_pos[th];
  ev("t%d %s %d %d", th, evname(what), id, kind);
  if (i >= t->n) viol("C07", "C07:trace-too-long", "thread %d: real run produced %s(id %d) after the reference program had ended", th, evname(what), id);
  Ev* x = &t->e[i];
  if (x->what != what || x->id != id || x->kind != kind) {
    const char* cls = "C07:trace-mismatch";
    if (what == EV_HANDLER && (x->what != EV_HANDLER || x->id != id)) cls = "C07:handler-ran-unexpectedly";
    else if (x->what == EV_HANDLER && what != EV_HANDLER) cls = "C07:handler-skipped";
    else if (what == EV_HANDLER && x->kind != kind) cls = "C07:wrong-exception-bound";
    viol("C07", cls, "thread %d event %d: expected %s(id %d, kind %d), real run did %s(id %d, kind %d)", th, i,
         evname(x->what), x->id, x->kind, evname(what), id, kind);
  }
  g_pos[th] = i + 1;
}

/* ---------------------------------------------------- reference interpreter */
static int model_block(int th, Prog* p, int first, int n);
static int g_model_in_handler;
static int model_stmt(int th, Prog* p, int idx) {
  TNode* t = &p->n[idx];
  switch (t->kind) {
    case S_NOP: case S_GARBAGE: exp_emit(th, EV_STMT, t->id, 0); return 0;
    case S_THROW: case S_LIBTHROW: exp_emit(th, EV_THROW, t->id, t->arg); if (g_model_in_handler) stat_add("exc.throw_in_handler", 1); return t->arg + 1;
    case S_CALL: return model_block(th, p, t->body, t->nbody);
    default: {
      int r = model_block(th, p, t->body, t->nbody);
      if (r == 0) { exp_emit(th, EV_AFTER, t->id, 0); return 0; }
      int x = r - 1, match = t->nf == 0;
      for (int i = 0; i < t->nf; i++) if ((t->f[i] & 7) == (x & 7)) match = 1;   /* a filter matches what is equal to it */
      if (!match) return r;
      exp_emit(th, EV_HANDLER, t->id, x);
      g_model_in_handler++;
      int r2 = model_block(th, p, t->hand, t->nhand);
      g_model_in_handler--;
      if (r2) return r2;
      exp_emit(th, EV_AFTER, t->id, 0);
      return 0; }
  }
}
static int model_block(int th, Prog* p, int first, int n) {
  for (int i = 0; i < n; i++) { int r = model_stmt(th, p, p->child[first + i]); if (r) return r; }
  return 0;
}

/* ------------------------------------------------------- real execution */
static __thread int t_self;     /* program index of the running thread */
static void run_block(Prog* p, int first, int n);

static void check_depth(size_t before, TNode* t) {
  size_t now = len(current(Exception));
  if (now != before) viol("C07", "C07:depth-changed", "nesting depth %zu before and %zu after try construct %d", before, now, t->id);
}

/* exceptions inside functions the machinery itself calls: a message argument whose Show, and an unreachable object whose
 * destructor, raise and handle an exception of their own (complete constructs, depth restored) */
static __thread int t_quiet;    /* thread teardown: destructors stay silent */
static void nested_construct(int k, const char* where) {
  size_t depth = len(current(Exception));
  var got = NULL;
  try { throw(KIND(k), "raised and handled inside %s", $S((char*)where)); } catch (e) { got = e; }
  if (got isnt KIND(k)) viol("C07", "C07:wrong-exception-bound", "construct inside %s: handler bound %s", where, got ? "another object" : "nothing");
  if (len(current(Exception)) != depth) viol("C07", "C07:depth-changed", "construct inside %s changed the nesting depth", where);
}
/* a stack object as the exception: still alive in the handler, which must be bound to that very object */
struct XObj { int64_t k; };
static var XObj = Cello(XObj);
static void stack_object_construct(int id) {
  var so = $(XObj, id);
  size_t depth = len(current(Exception));
  var got = NULL;
  try { throw(so, "a stack object thrown by statement %i", $I(id)); } catch (e) { got = e; }
  if (got isnt so) viol("C07", "C07:wrong-exception-bound", "a thrown stack object: the handler was bound to %s", got ? "another object" : "nothing");
  if (((struct XObj*)so)->k != id) viol("C07", "C07:wrong-exception-bound", "the thrown stack object was modified");
  if (len(current(Exception)) != depth) viol("C07", "C07:depth-changed", "construct with a stack exception object changed the nesting depth");
  stat_add("exc.throw_stack_object", 1);
}
/* filter elements whose own comparison is guarded by a complete try/catch (body completes normally): while the filters of an outer
 * catch are being compared nothing is pending for that inner construct, so its handler must not run, and the outer handler is still
 * bound to the thrown object */
struct GCmp { int64_t k; };
static __thread int t_gcmp_spurious, t_gcmp_calls;
static var GCmp;
static int GCmp_Cmp(var self, var obj) {
  struct GCmp* a = self; volatile int r = 1;
  t_gcmp_calls++;
  try { if (type_of(obj) is GCmp) { struct GCmp* b = obj; r = a->k == b->k ? 0 : (a->k < b->k ? -1 : 1); } } catch (e) { t_gcmp_spurious++; }
  return r;
}
static var GCmp = Cello(GCmp, Instance(Cmp, GCmp_Cmp));
static void guarded_cmp_construct(int id) {
  var x = $(GCmp, id), f1 = $(GCmp, id + 1), f2 = $(GCmp, id), f3 = $(GCmp, id + 2);
  size_t depth = len(current(Exception));
  var got = NULL; volatile int fell_through = 0;
  t_gcmp_spurious = 0; t_gcmp_calls = 0;
  if (id & 1) { try { throw(x, "an object with a guarded comparison thrown by statement %i", $I(id)); } catch (e in f1, f2) { got = e; } }
  else {
    /* the inner filters do not match: the exception must continue to the enclosing construct */
    try { try { throw(x, "an object with a guarded comparison thrown by statement %i", $I(id)); } catch (e in f1, f3) { fell_through = 1; } }
    catch (e in f2) { got = e; }
  }
  if (t_gcmp_spurious) viol("C07", "C07:handler-ran-without-exception", "a try/catch inside a filter element's comparison ran its handler %d time(s) although its body raised nothing", t_gcmp_spurious);
  if (fell_through) viol("C07", "C07:handler-ran-for-other-kind", "a handler whose filters do not match the thrown object ran");
  if (got isnt x) viol("C07", "C07:wrong-exception-bound", "filters with a guarded comparison: the handler was bound to %s", got ? "another object" : "nothing");
  if (t_gcmp_calls == 0) viol("C07", "C07:harness:guarded-cmp-not-called", "the filter comparison was never called");
  if (len(current(Exception)) != depth) viol("C07", "C07:depth-changed", "construct with guarded filter comparisons changed the nesting depth");
  stat_add("exc.filter_cmp_with_try", 1);
}
struct Shower { int64_t k; };
static int Shower_Show(var self, var out, int pos) {
  struct Shower* s = self;
  nested_construct((int)s->k, "a Show called by throw");
  stat_add("exc.show_with_exception", 1);
  return print_to(out, pos, "shown");
}
static var Shower = Cello(Shower, Instance(Show, Shower_Show, NULL));
struct Dtor { int64_t k; };
static void Dtor_Del(var self) {
  struct Dtor* d = self;
  if (t_quiet || g_trace_fd >= 0) return;
  nested_construct((int)d->k, "a destructor");
  stat_add("exc.destructor_with_exception", 1);
}
static var Dtor = Cello(Dtor, Instance(New, NULL, Dtor_Del));
static __attribute__((noinline)) void make_garbage(int n, int k) {
#ifndef CELLO_NGC
  for (int i = 0; i < n; i++) { struct Dtor* d = new(Dtor); d->k = k; }
  stat_add("exc.garbage_objects", n);
#else
  (void)n; (void)k;
#endif
}

static var g_tree;   /* a raw Tree kept for the FormatError library call */
static void lib_throw(int k) {
  /* a genuine library call that raises kind k (none of them allocates, so the non-local exit leaks nothing) */
  switch (k) {
    case 0: get(tuple(), $I(3)); break;                                  /* IndexOutOfBoundsError */
    case 1: get(current(Thread), $S("no-such-tls-key")); break;          /* KeyError */
    case 2: cast($I(1), Float); break;                                   /* ValueError */
    case 3: cmp($(Function, NULL), $I(1)); break;                        /* TypeError */
    case 4: push($I(1), $I(2)); break;                                   /* ClassError */
    default: resize(g_tree, 3); break;                                   /* FormatError */
  }
  throw(KIND(k), "library call for kind %i did not raise", $I(k));
}

static void on_handler(TNode* t, var e) {
  int k = kind_of(e);
  act_emit(t_self, EV_HANDLER, t->id, k);
}

#define HANDLE(P_, T_, E_) do { on_handler(T_, E_); run_block(P_, (T_)->hand, (T_)->nhand); } while (0)
#define F0(T_) XOBJ((T_)->f[0])
#define F1(T_) XOBJ((T_)->f[1])
#define F2(T_) XOBJ((T_)->f[2])

/* one try construct whose body is BODY (a statement), in the current function */
#define TRY_CONSTRUCT(P_, T_, EV_, BODY) do { \
  size_t depth__##EV_ = len(current(Exception)); stat_max("exc.max_open_try_blocks", (long)depth__##EV_ + 1); \
  switch ((T_)->nf) { \
    case 0:  try { BODY; } catch (EV_) { HANDLE(P_, T_, EV_); } break; \
    case 1:  try { BODY; } catch (EV_ in F0(T_)) { HANDLE(P_, T_, EV_); } break; \
    case 2:  try { BODY; } catch (EV_ in F0(T_), F1(T_)) { HANDLE(P_, T_, EV_); } break; \
    default: try { BODY; } catch (EV_ in F0(T_), F1(T_), F2(T_)) { HANDLE(P_, T_, EV_); } break; \
  } \
  check_depth(depth__##EV_, T_); \
  act_emit(t_self, EV_AFTER, (T_)->id, 0); \
} while (0)

static void run_stmt(Prog* p, int idx);

static int first_try_child(Prog* p, TNode* t) {
  for (int i = 0; i < t->nbody; i++) if (p->n[p->child[t->body + i]].kind == S_TRY) return i;
  return -1;
}

/* lexical nesting: up to three try constructs written inside one C function */
static void run_try(Prog* p, TNode* t) {
  int c1 = t->lexical ? first_try_child(p, t) : -1;
  if (c1 < 0) { TRY_CONSTRUCT(p, t, e1, run_block(p, t->body, t->nbody)); return; }
  TNode* t2 = &p->n[p->child[t->body + c1]];
  int c2 = t2->lexical ? first_try_child(p, t2) : -1;
  stat_add("exc.lexical_nesting", 1);
  if (c2 < 0) {
    TRY_CONSTRUCT(p, t, e1, {
      run_block(p, t->body, c1);
      TRY_CONSTRUCT(p, t2, e2, run_block(p, t2->body, t2->nbody));
      run_block(p, t->body + c1 + 1, t->nbody - c1 - 1);
    });
    return;
  }
  TNode* t3 = &p->n[p->child[t2->body + c2]];
  stat_add("exc.lexical_nesting3", 1);
  TRY_CONSTRUCT(p, t, e1, {
    run_block(p, t->body, c1);
    TRY_CONSTRUCT(p, t2, e2, {
      run_block(p, t2->body, c2);
      TRY_CONSTRUCT(p, t3, e3, run_block(p, t3->body, t3->nbody));
      run_block(p, t2->body + c2 + 1, t2->nbody - c2 - 1);
    });
    run_block(p, t->body + c1 + 1, t->nbody - c1 - 1);
  });
}

static __attribute__((noinline)) void run_call(Prog* p, TNode* t) {
  volatile char pad[64]; pad[0] = 1; (void)pad;       /* a real frame of its own */
  run_block(p, t->body, t->nbody);
}

static void run_stmt(Prog* p, int idx) {
  TNode* t = &p->n[idx];
  switch (t->kind) {
    case S_NOP: act_emit(t_self, EV_STMT, t->id, 0); if (t->arg & 1) stack_object_construct(t->id); if (t->arg & 2) guarded_cmp_construct(t->id); break;
    case S_GARBAGE: act_emit(t_self, EV_STMT, t->id, 0); if (!g_nolib) { make_garbage(t->arg, t->f[0]); sim_scrub_stack(); } break;
    case S_THROW:
      act_emit(t_self, EV_THROW, t->id, t->arg); stat_add("exc.throw", 1);
      if (t->arg & 8) stat_add("exc.throw_twin", 1);
      if ((t->f[0] & 4) && !g_nolib) { glue_gc_prime(0); stat_add("exc.throw_at_collection_point", 1); }
      if (t->f[0] & 2) throw(XOBJ(t->arg), "thrown by statement %i with %$", $I(t->id), $(Shower, (t->id + t->arg) % NKIND));
      throw(XOBJ(t->arg), "thrown by statement %i", $I(t->id)); break;
    case S_LIBTHROW: act_emit(t_self, EV_THROW, t->id, t->arg); stat_add("exc.throw_from_library", 1); lib_throw(t->arg); break;
    case S_CALL: run_call(p, t); break;
    default: run_try(p, t); break;
  }
}
static void run_block(Prog* p, int first, int n) { for (int i = 0; i < n; i++) run_stmt(p, p->child[first + i]); }

static void run_program(int th) {
  Prog* p = P[th];
  t_self = th;
  run_block(p, p->top, p->ntop);
  act_emit(th, EV_DONE, 0, 0);
  if (len(current(Exception)) != 0) viol("C07", "C07:depth-changed", "thread %d: nesting depth %zu after the whole program", th, len(current(Exception)));
  t_quiet = 1;
}

static var thread_entry(var args) {
  int th = (int)c_int(get(args, $I(0)));
  run_program(th);
  return NULL;
}

/* a program the reference interpreter says ends with an uncaught exception: run it in a child process,
 * require failure status + a diagnostic naming the exception, and compare the events it shipped back */
static void run_uncaught_program(int kind_expected) {
  int tp[2], ep[2];
  if (pipe(tp) || pipe(ep)) viol("C07", "C07:harness:pipe", "pipe failed");
  pid_t pid = fork();
  if (pid == 0) {
    close(tp[0]); close(ep[0]);
    alarm(25);
    dup2(ep[1], 2);
    g_trace_fd = tp[1];
    t_self = 0;
    Prog* p = P[0];
    run_block(p, p->top, p->ntop);
    Ev d = { EV_DONE, 0, 0 }; (void)!write(tp[1], &d, sizeof d);
    _exit(0);
  }
  close(tp[1]); close(ep[1]);
  static char err[8192]; size_t en = 0; ssize_t r;
  Ev e;
  while ((r = read(tp[0], &e, sizeof e)) == (ssize_t)sizeof e) {
    int save = g_trace_fd; g_trace_fd = -1;
    act_emit(0, e.what, e.id, e.kind);
    g_trace_fd = save;
  }
  while (en < sizeof err - 1 && (r = read(ep[0], err + en, sizeof err - 1 - en)) > 0) en += (size_t)r;
  err[en] = 0;
  close(tp[0]); close(ep[0]);
  int st = 0; waitpid(pid, &st, 0);
  act_emit(0, EV_UNCAUGHT, 0, kind_expected);
  if (WIFSIGNALED(st) && WTERMSIG(st) == SIGALRM)
    viol("C07", "C07:nontermination", "program with an uncaught %s did not terminate", KNAME_[kind_expected & 7]);
  if (!WIFEXITED(st) || WEXITSTATUS(st) == 0)
    viol("C07", "C07:uncaught-no-failure-status", "uncaught %s: process status %d (exited=%d)", KNAME_[kind_expected & 7], WIFEXITED(st) ? WEXITSTATUS(st) : -WTERMSIG(st), WIFEXITED(st));
  /* a diagnostic: something on stderr that names the exception (its wording is the implementation's business) */
  if (!strstr(err, KNAME_[kind_expected & 7]))
    viol("C07", "C07:uncaught-no-diagnostic", "uncaught %s: stderr does not name it", KNAME_[kind_expected & 7]);
  stat_add("exc.uncaught_programs", 1);
}

static void count_features(int th) {
  Trace* t = EXP[th];
  /* inner handled exception followed by normal completion of an enclosing body; throw from a handler */
  int handlers = 0, after_handler_after = 0;
  for (int i = 0; i < t->n; i++) {
    if (t->e[i].what == EV_HANDLER) handlers++;
    if (t->e[i].what == EV_AFTER && handlers > 0) {
      /* an AFTER of a construct other than the one whose handler just ran, reached without a new throw */
      for (int j = i - 1; j >= 0; j--) { if (t->e[j].what == EV_THROW) break; if (t->e[j].what == EV_AFTER && t->e[j].id != t->e[i].id) { after_handler_after = 1; break; } }
    }
  }
  stat_add("exc.handlers", handlers);
  if (after_handler_after) stat_add("exc.outer_completes_after_inner_handled", 1);
}

static void exc_execute(const Plan* p) {
  int nth = (int)plan_env(p, "threads", 0); if (nth > MAXTH - 1) nth = MAXTH - 1; if (nth < 0) nth = 0;
  g_nolib = (int)plan_env(p, "nolib", 0);
  for (int k = 0; k < NKIND; k++) g_twin[k] = new_raw(Type, $S((char*)KNAME_[k]), $I(0));
  for (int th = 0; th <= nth; th++) {
    P[th] = harness_alloc(sizeof(Prog)); EXP[th] = harness_alloc(sizeof(Trace));
    OpStream* s = harness_alloc(sizeof(OpStream));
    for (int i = 0; i < p->nops; i++) if ((p->ops[i].tid % (nth + 1)) == th) s->ops[s->n++] = &p->ops[i];
    P[th]->ntop = parse_block(P[th], s, &P[th]->top, 0, 0);
    int r = model_block(th, P[th], P[th]->top, P[th]->ntop);
    if (r) exp_emit(th, EV_UNCAUGHT, 0, r - 1); else exp_emit(th, EV_DONE, 0, 0);
    count_features(th);
    stat_add("exc.nodes", P[th]->nn);
  }
  g_tree = new_raw(Tree, Int, Int);
  progress(0, "C07", "program");
  /* worker threads only run programs that handle everything they throw (an uncaught exception ends the process) */
  int managed = (int)plan_env(p, "managed_threads", 0);    /* Thread objects made with new(), as the documentation does */
  var th_obj[MAXTH]; var th_arg[MAXTH]; int started[MAXTH] = { 0 };
  for (int th = 1; th <= nth; th++) {
    Trace* t = EXP[th];
    if (t->n && t->e[t->n - 1].what == EV_UNCAUGHT) { stat_add("exc.thread_program_skipped", 1); continue; }
    th_obj[th] = managed ? new(Thread, $(Function, thread_entry)) : new_raw(Thread, $(Function, thread_entry));
    th_arg[th] = managed ? new(Int, $I(th)) : new_raw(Int, $I(th));      /* the argument tuple holds pointers: one object per thread */
    call(th_obj[th], th_arg[th]);
    started[th] = 1;
    stat_add("exc.thread_programs", 1);
  }
  Trace* t0 = EXP[0];
  if (t0->n && t0->e[t0->n - 1].what == EV_UNCAUGHT) {
    /* join the workers first: the child process of an uncaught program must not share running threads */
    for (int th = 1; th <= nth; th++) if (started[th]) { join(th_obj[th]); started[th] = 2; }
    run_uncaught_program(t0->e[t0->n - 1].kind);
  } else {
    run_program(0);
  }
  for (int th = 1; th <= nth; th++) if (started[th] == 1) join(th_obj[th]);
  for (int th = 1; th <= nth; th++) if (started[th]) { if (managed) { del(th_obj[th]); del(th_arg[th]); } else { del_raw(th_obj[th]); del_raw(th_arg[th]); } }
  for (int th = 0; th <= nth; th++) {
    if (th > 0 && !started[th]) continue;
    if (g_pos[th] != EXP[th]->n) viol("C07", "C07:trace-too-short", "thread %d: real run produced %d of %d expected events", th, g_pos[th], EXP[th]->n);
  }
  if (stat_get("exc.outer_completes_after_inner_handled") > 0 || stat_get("exc.throw_in_handler") > 0) mark_nontrivial();
}

/* ------------------------------------------------------------ generator */
static void gen_block(Plan* p, Rng* r, int tid, int depth, int* budget, int in_handler);
static void gen_stmt(Plan* p, Rng* r, int tid, int depth, int* budget, int in_handler) {
  uint32_t d = rng_below(r, 100);
  (*budget)--;
  if (depth == 0 && d >= 30 && d < 48 && rng_chance(r, 3, 4)) d = 70;     /* few bare throws at top level */
  if (d >= 24 && d < 30 && plan_env(p, "plainexc", 0) == 0) { int64_t g2 = rng_below(r, NKIND), g1 = rng_below(r, 8); plan_add(p, E_GARBAGE, tid, 0, g1, g2, 0, 0, 0, 0); return; }
  if (d < 30 || depth >= 5 || *budget < 3) {
    int64_t fl = 0;
    if (plan_env(p, "plainexc", 0) == 0) { if (rng_chance(r, 1, 5)) fl = 1; else if (rng_chance(r, 1, 6)) fl = 2; }
    plan_add(p, E_NOP, tid, 0, fl, 0, 0, 0, 0, 0); return;
  }
  if (d < 48) {
    int fl = 0;
    if (plan_env(p, "plainexc", 0) == 0) { int f1 = rng_chance(r, 1, 4) ? 1 : 0; int f2 = rng_chance(r, 1, 6) ? 2 : 0; int f4 = rng_chance(r, 1, 5) ? 4 : 0; fl = f1 | f2 | f4; }
    int64_t tk = rng_below(r, NKIND); int tc = rng_chance(r, 1, 4) ? E_LIBTHROW : E_THROW;
    plan_add(p, tc, tid, 0, tk, fl, 0, 0, 0, 0); return; }
  if (d < 58) { plan_add(p, E_CALL, tid, 0, 0, 0, 0, 0, 0, 0); gen_block(p, r, tid, depth + 1, budget, in_handler); plan_add(p, E_RET, tid, 0, 0, 0, 0, 0, 0, 0); return; }
  int mask = rng_chance(r, 1, 3) ? 0 : (int)(1 + rng_below(r, 63));
  if (rng_chance(r, 1, 3)) mask = 1 << rng_below(r, NKIND);
  if (plan_env(p, "plainexc", 0) == 0 && rng_chance(r, 1, 3)) mask |= (int)rng_below(r, 64) << 6;
  { int64_t y3 = rng_below(r, 2), y2 = rng_below(r, 4); plan_add(p, E_TRY, tid, 0, mask, y2, y3, 0, 0, 0); }
  gen_block(p, r, tid, depth + 1, budget, in_handler);
  plan_add(p, E_CATCH, tid, 0, 0, 0, 0, 0, 0, 0);
  gen_block(p, r, tid, depth + 1, budget, 1);
  plan_add(p, E_END, tid, 0, 0, 0, 0, 0, 0, 0);
}
/* a tower: n try blocks open at once (each with its own filter), a throw at the top, handlers on the way down - the jump-buffer
 * stack at depths that ordinary programs rarely reach */
static void gen_tower(Plan* p, Rng* r, int tid, int n) {
  for (int i = 0; i < n && p->nops < MAXOPS - 64; i++) {
    int mask = rng_chance(r, 1, 4) ? 0 : (int)(1 + rng_below(r, 63));
    int64_t y3 = 0, y2 = rng_below(r, 4);
    plan_add(p, E_TRY, tid, 0, mask, y2, y3, 0, 0, 0);
    if (rng_chance(r, 1, 3)) plan_add(p, E_NOP, tid, 0, 0, 0, 0, 0, 0, 0);
  }
  plan_add(p, E_THROW, tid, 0, rng_below(r, NKIND), 0, 0, 0, 0, 0);
  for (int i = 0; i < n && p->nops < MAXOPS - 8; i++) {
    plan_add(p, E_CATCH, tid, 0, 0, 0, 0, 0, 0, 0);
    if (rng_chance(r, 1, 3)) plan_add(p, E_NOP, tid, 0, 0, 0, 0, 0, 0, 0);
    if (rng_chance(r, 1, 8)) plan_add(p, E_THROW, tid, 0, rng_below(r, NKIND), 0, 0, 0, 0, 0);
    plan_add(p, E_END, tid, 0, 0, 0, 0, 0, 0, 0);
  }
}
static void gen_block(Plan* p, Rng* r, int tid, int depth, int* budget, int in_handler) {
  int n = (int)rng_below(r, depth == 0 ? 5 : 4) + (depth == 0 ? 1 : 0);
  for (int i = 0; i < n && *budget > 0 && p->nops < MAXOPS - 16; i++) gen_stmt(p, r, tid, depth, budget, in_handler);
}
static void exc_generate(Plan* p, Rng* r) {
  int nth = 0;
  if (plan_env(p, "threads", -1) < 0) { nth = rng_chance(r, 1, 4) ? 1 + (int)rng_below(r, 3) : 0; plan_env_set(p, "threads", nth); }
  else nth = (int)plan_env(p, "threads", 0);
  if (nth > 0) { plan_env_set(p, "sched.mode", 2); plan_env_set(p, "sched.chaos_den", 2 + (int)rng_below(r, 6)); }
  if (nth > 0 && plan_env(p, "managed_threads", -1) < 0) plan_env_set(p, "managed_threads", (int)rng_below(r, 2));
  plan_env_set(p, "alloc.place", (int)rng_below(r, 3));
  for (int th = 0; th <= nth; th++) {
    int budget = 6 + (int)rng_below(r, 34);
    if (plan_env(p, "plainexc", 0) == 0 && rng_chance(r, 1, 8)) { gen_tower(p, r, th, 6 + (int)rng_below(r, 30)); }
    gen_block(p, r, th, 0, &budget, 0);
  }
}

const Scenario scen_exc = { "exc", OPS, E_NOPS, exc_generate, exc_execute, "C07" };
