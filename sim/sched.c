/* Baton scheduler over real pthreads behind --wrap=pthread_create,pthread_join,
 * pthread_mutex_lock/trylock/unlock,pthread_getspecific.  Exactly one simulated
 * thread runs at any time; every switch is decided here from the plan
 * (pre-emption list, chaos stream), so a plan is one exact interleaving. */
#define _GNU_SOURCE
#include "sim.h"
#include <pthread.h>
#include <semaphore.h>
#include <string.h>
#include <stdio.h>
#include <errno.h>
#include <unistd.h>
#include <sys/mman.h>
#include <stdlib.h>
#include <execinfo.h>

int   __real_pthread_create(pthread_t*, const pthread_attr_t*, void*(*)(void*), void*);
int   __real_pthread_join(pthread_t, void**);
int   __real_pthread_mutex_lock(pthread_mutex_t*);
int   __real_pthread_mutex_trylock(pthread_mutex_t*);
int   __real_pthread_mutex_unlock(pthread_mutex_t*);
#define __real_pthread_getspecific pthread_getspecific   /* redirected by macro in /repo objects, not by --wrap */

#define MAXT 160
#define TSTACK_BASE 0x1F1000000000ULL
#define TSTACK_SIZE (32UL << 20)
#define TSTACK_STRIDE (1ULL << 32)

enum { T_UNUSED = 0, T_RUNNABLE, T_BLOCKED_MUTEX, T_BLOCKED_JOIN, T_DONE };

struct SimThread {
  pthread_t th;
  sem_t     sem;
  int       state;
  void*   (*fn)(void*);
  void*     arg;
  void*     wait_mutex;
  int       wait_tid;
  int       joined;
  void*     stack;
};

static struct SimThread T[MAXT];
static int  g_active;            /* scheduler installed */
static int  g_nthreads = 1;      /* ids handed out so far */
static int  g_alive = 1;         /* threads not DONE */
static int  g_cur;               /* baton holder */
static long g_yields, g_switches;
long sched_lib_switches;
long sched_hook_switches[16];     /* switches taken at the guarded yield hooks inside /repo, by site */
static uint32_t g_ord;           /* ordinal of yields taken while >1 thread alive */
static const Plan* g_plan;
static int  g_mode;              /* 0 plan pre-emptions only, 2 chaos */
static int  g_chaos_den = 4;
static Rng  g_rng;
static int  g_sched_pos;
static __thread int tls_self;
static __thread int tls_registered;   /* only threads the scheduler has started may yield */

#define MAXMTX 64
static struct { void* m; int owner; } M[MAXMTX];   /* owner: tid+1, 0 = free */
static int g_nmtx;

extern void sched_install_hook(void (*fn)(int));   /* glue.c: sets cello_verif_yield */

static int mtx_slot(void* m) {
  for (int i = 0; i < g_nmtx; i++) if (M[i].m == m) return i;
  if (g_nmtx >= MAXMTX) return -1;
  M[g_nmtx].m = m; M[g_nmtx].owner = 0;
  return g_nmtx++;
}

int  sched_self(void) { return tls_self; }
long sched_switches(void) { return g_switches; }
long sched_yields(void) { return g_yields; }
int  sched_nthreads(void) { return g_nthreads; }
int  sched_thread_done(int tid) { return tid >= 0 && tid < MAXT && T[tid].state == T_DONE; }

void sched_stats_flush(void) {
  if (!g_active) return;
  stat_add("sched.yields", g_yields);
  stat_add("sched.switches", g_switches);
  stat_add("sched.lib_switches", sched_lib_switches);
  stat_add("sched.threads", g_nthreads);
  stat_add("sched.sw_in_cache_fill", sched_hook_switches[1]);
  stat_add("sched.sw_in_class_memo", sched_hook_switches[2]);
  stat_add("sched.sw_in_lazy_header", sched_hook_switches[3]);
  stat_add("sched.sw_in_gc_set", sched_hook_switches[5]);
  stat_add("sched.sw_in_sweep", sched_hook_switches[6]);
  stat_add("sched.sw_before_longjmp", sched_hook_switches[7] + sched_hook_switches[8]);
}

static int pick_next(int from, int want) {
  /* `want` (if runnable) else the next runnable thread after `from` in id order */
  if (want >= 0 && want < g_nthreads && T[want].state == T_RUNNABLE) return want;
  for (int k = 1; k <= g_nthreads; k++) {
    int t = (from + k) % g_nthreads;
    if (T[t].state == T_RUNNABLE) return t;
  }
  return -1;
}

static void switch_to(int next, int site) {
  int me = tls_self;
  if (next == me) return;
  g_switches++;
  if (site < 100 || site == SITE_MALLOC || site == SITE_FREE || site == SITE_GETSPECIFIC) sched_lib_switches++;
  if (site >= 0 && site < 16) sched_hook_switches[site]++;
  g_cur = next;
  if (sim_verbose) ev("sw %d>%d @%d #%u", me, next, site, g_ord); else ev("sw %d>%d @%d", me, next, site);
  sem_post(&T[next].sem);
  while (sem_wait(&T[me].sem) < 0 && errno == EINTR) {}
}

static void block_and_switch(int site) {
  int me = tls_self;
  int next = pick_next(me, -1);
  if (next < 0) viol("C13", "C13:deadlock", "no runnable thread: thread %d blocked at site %d", me, site);
  switch_to(next, site);
}

static long g_ytr_lo = -1, g_ytr_hi = -1, g_bt_ord = -1;
void* sim_last_addr;
void sim_yield(int site) {
  if (!g_active || g_alive < 2 || !tls_registered) return;
  if (g_cur != tls_self) { char b[96]; int n = snprintf(b, sizeof b, "cellosim: thread %d yields at site %d while thread %d holds the baton\n", tls_self, site, g_cur); (void)!write(2, b, (size_t)n); _exit(12); }   /* reported as a crash of the code under test (control flow diverted into another thread), and gated like one */
  g_yields++;
  uint32_t ord = g_ord++;
  if ((long)ord == g_bt_ord) { void* bt[16]; int n = backtrace(bt, 16); backtrace_symbols_fd(bt, n, 2); }
  if (g_ytr_lo >= 0 && (long)ord >= g_ytr_lo && (long)ord <= g_ytr_hi) { char b[96]; int n = snprintf(b, sizeof b, "Y %u t%d site=%d addr=%p\n", ord, tls_self, site, sim_last_addr); (void)!write(2, b, (size_t)n); }
  int me = tls_self;
  int want = -2;
  while (g_sched_pos < g_plan->nsched && g_plan->sched[g_sched_pos].ord < ord) g_sched_pos++;
  if (g_sched_pos < g_plan->nsched && g_plan->sched[g_sched_pos].ord == ord) {
    want = g_plan->sched[g_sched_pos].tid % g_nthreads;
    g_sched_pos++;
  } else if (g_mode == 2 && rng_below(&g_rng, (uint32_t)g_chaos_den) == 0) {
    want = (int)rng_below(&g_rng, (uint32_t)g_nthreads);
  }
  if (want == -2) return;
  int next = pick_next(me, want);
  if (next < 0 || next == me) return;
  switch_to(next, site);
}

/* a spinning thread gives way: always hands the baton to another runnable thread if there is one */
void sim_pause(void) {
  if (!g_active || g_alive < 2 || !tls_registered) return;
  g_yields++; g_ord++;
  int me = tls_self;
  for (int k = 1; k < g_nthreads; k++) {
    int t = (me + k) % g_nthreads;
    if (T[t].state == T_RUNNABLE) { switch_to(t, SITE_EXPLICIT); return; }
  }
}

/* sites 20/21 bracket the collector's conservative stack scan: what it reads there (and how often) depends on stale stack
 * words such as setjmp-mangled pointers and stack-protector canaries, which are random per process, so the memory-access
 * scheduler must not count those reads */
__thread int sim_in_stack_scan;
static void hook_yield(int site) {
  if (site == 20) { sim_in_stack_scan++; return; }
  if (site == 21) { sim_in_stack_scan--; return; }
  sim_yield(site);
}

void sched_init(const Plan* p) {
  g_plan = p;
  g_mode = (int)plan_env(p, "sched.mode", 0);
  g_chaos_den = (int)plan_env(p, "sched.chaos_den", 4);
  if (g_chaos_den < 1) g_chaos_den = 1;
  rng_seed(&g_rng, p->seed, p->run, STREAM_SCHED);
  if (getenv("SIM_BTORD")) g_bt_ord = atol(getenv("SIM_BTORD"));
  if (getenv("SIM_YTRACE")) sscanf(getenv("SIM_YTRACE"), "%ld:%ld", &g_ytr_lo, &g_ytr_hi);
  memset(T, 0, sizeof T);
  T[0].state = T_RUNNABLE; T[0].th = pthread_self();
  sem_init(&T[0].sem, 0, 0);
  tls_self = 0; tls_registered = 1; g_cur = 0; g_nthreads = 1; g_alive = 1;
  g_active = 1;
  arena_yield = hook_yield;
  sched_install_hook(hook_yield);
}

static void* trampoline(void* arg) {
  int me = (int)(intptr_t)arg;
  tls_self = me;
  while (sem_wait(&T[me].sem) < 0 && errno == EINTR) {}
  tls_registered = 1;
  void* r = T[me].fn(T[me].arg);
  /* finished: publish, wake joiners, hand the baton on */
  T[me].state = T_DONE;
  tls_registered = 0;
  g_alive--;
  ev("exit t%d", me);
  for (int t = 0; t < g_nthreads; t++)
    if (T[t].state == T_BLOCKED_JOIN && T[t].wait_tid == me) T[t].state = T_RUNNABLE;
  int next = pick_next(me, -1);
  if (next < 0) viol("C13", "C13:deadlock", "thread %d finished and nobody is runnable", me);
  g_switches++;
  g_cur = next;
  sem_post(&T[next].sem);
  return r;
}

int __wrap_pthread_create(pthread_t* th, const pthread_attr_t* attr, void*(*fn)(void*), void* arg) {
  if (!g_active) return __real_pthread_create(th, attr, fn, arg);
  if (g_nthreads >= MAXT) return EAGAIN;
  int id = g_nthreads;
  void* want = (void*)(TSTACK_BASE + (uint64_t)id * TSTACK_STRIDE);
  void* stk = mmap(want, TSTACK_SIZE, PROT_READ | PROT_WRITE,
                   MAP_PRIVATE | MAP_ANONYMOUS | MAP_NORESERVE | MAP_FIXED_NOREPLACE, -1, 0);
  if (stk != want) return EAGAIN;
  pthread_attr_t at;
  pthread_attr_init(&at);
  pthread_attr_setstack(&at, stk, TSTACK_SIZE);
  T[id].fn = fn; T[id].arg = arg; T[id].state = T_RUNNABLE; T[id].joined = 0; T[id].stack = stk;
  sem_init(&T[id].sem, 0, 0);
  g_nthreads++; g_alive++;
  int rc = __real_pthread_create(&T[id].th, &at, trampoline, (void*)(intptr_t)id);
  pthread_attr_destroy(&at);
  if (rc) { T[id].state = T_UNUSED; g_nthreads--; g_alive--; return rc; }
  *th = T[id].th;
  ev("create t%d", id);
  sim_yield(SITE_CREATE);
  return 0;
}

int __wrap_pthread_join(pthread_t th, void** ret) {
  if (!g_active) return __real_pthread_join(th, ret);
  int id = -1;
  for (int t = 1; t < g_nthreads; t++) if (T[t].state != T_UNUSED && pthread_equal(T[t].th, th)) { id = t; break; }
  if (id < 0) return __real_pthread_join(th, ret);
  sim_yield(SITE_JOIN);
  int me = tls_self;
  while (T[id].state != T_DONE) {
    T[me].state = T_BLOCKED_JOIN; T[me].wait_tid = id;
    block_and_switch(SITE_JOIN);
    T[me].state = T_RUNNABLE;
  }
  ev("join t%d<-t%d", me, id);
  if (T[id].joined) return EINVAL;
  T[id].joined = 1;
  int rc = __real_pthread_join(th, ret);
  if (T[id].stack) { munmap(T[id].stack, TSTACK_SIZE); T[id].stack = NULL; }
  return rc;
}

int __wrap_pthread_mutex_lock(pthread_mutex_t* m) {
  if (!g_active) return __real_pthread_mutex_lock(m);
  sim_yield(SITE_MUTEX);
  int me = tls_self;
  int s = mtx_slot(m);
  if (s < 0) return __real_pthread_mutex_lock(m);
  while (M[s].owner != 0) {
    if (M[s].owner == me + 1) return EDEADLK;   /* relock by owner: report instead of hanging */
    T[me].state = T_BLOCKED_MUTEX; T[me].wait_mutex = m;
    block_and_switch(SITE_MUTEX);
    T[me].state = T_RUNNABLE;
  }
  M[s].owner = me + 1;
  ev("lock t%d m%d", me, s);
  return __real_pthread_mutex_lock(m);
}

int __wrap_pthread_mutex_trylock(pthread_mutex_t* m) {
  if (!g_active) return __real_pthread_mutex_trylock(m);
  sim_yield(SITE_MUTEX);
  int me = tls_self;
  int s = mtx_slot(m);
  if (s < 0) return __real_pthread_mutex_trylock(m);
  if (M[s].owner != 0) { ev("trylock t%d m%d busy", me, s); return EBUSY; }
  int rc = __real_pthread_mutex_trylock(m);
  if (rc == 0) { M[s].owner = me + 1; ev("trylock t%d m%d ok", me, s); }
  return rc;
}

int __wrap_pthread_mutex_unlock(pthread_mutex_t* m) {
  if (!g_active) return __real_pthread_mutex_unlock(m);
  int me = tls_self;
  int s = mtx_slot(m);
  if (s < 0) return __real_pthread_mutex_unlock(m);
  if (M[s].owner != me + 1) return EPERM;
  int rc = __real_pthread_mutex_unlock(m);
  M[s].owner = 0;
  ev("unlock t%d m%d", me, s);
  for (int t = 0; t < g_nthreads; t++)
    if (T[t].state == T_BLOCKED_MUTEX && T[t].wait_mutex == m) T[t].state = T_RUNNABLE;
  sim_yield(SITE_MUTEX);
  return rc;
}

void* __wrap_pthread_getspecific(pthread_key_t k) {
  if (g_active && g_alive >= 2) sim_yield(SITE_GETSPECIFIC);
  return __real_pthread_getspecific(k);
}
