/* cellosim — deterministic simulation kernel for Cello (see /verif/DESIGN.md).
 * This header is included both by plain-C files and by files that include
 * Cello.h (which turns `in`, `is`, `not`, `and`, `or`, `new`, `try`, ... into
 * macros), so none of those words may appear here as identifiers. */
#ifndef CELLOSIM_H
#define CELLOSIM_H

#include <stdint.h>
#include <stddef.h>
#include <stdarg.h>

/* ---------------------------------------------------------------- rng */
typedef struct { uint64_t s[4]; } Rng;
enum { STREAM_PLAN = 1, STREAM_SCHED = 2, STREAM_ALLOC = 3, STREAM_IO = 4, STREAM_AUX = 5 };
void     rng_seed(Rng* r, uint64_t seed, uint64_t run, uint64_t stream);
uint64_t rng_next(Rng* r);
uint32_t rng_below(Rng* r, uint32_t n);          /* 0..n-1, n>0 */
int      rng_chance(Rng* r, uint32_t num, uint32_t den);
int64_t  rng_range(Rng* r, int64_t lo, int64_t hi); /* inclusive */

/* --------------------------------------------------------------- plan */
#define MAXOPS   2048
#define MAXARGS  6
#define MAXENV   40
#define MAXSCHED 128

typedef struct {
  uint16_t code;
  uint8_t  tid;      /* thread that executes the op (0 = main) */
  uint8_t  fault;    /* scenario-defined fault attached to the op (0 = none) */
  int64_t  a[MAXARGS];
} Op;

typedef struct { const char* name; int nargs; } OpInfo;

typedef struct {
  char     scen[24];
  uint64_t seed, run;
  int      nenv;
  struct { char k[24]; int64_t v; } env[MAXENV];
  int      nops;
  Op       ops[MAXOPS];
  int      nsched;
  struct { uint32_t ord; uint8_t tid; } sched[MAXSCHED];
} Plan;

int64_t plan_env(const Plan* p, const char* key, int64_t dflt);
void    plan_env_set(Plan* p, const char* key, int64_t v);
Op*     plan_add(Plan* p, int code, int tid, int fault,
                 int64_t a0, int64_t a1, int64_t a2, int64_t a3, int64_t a4, int64_t a5);

typedef struct Scenario {
  const char*   name;
  const OpInfo* ops;
  int           nopinfo;
  void (*generate)(Plan* p, Rng* r);
  void (*execute)(const Plan* p);      /* runs on the simulated main thread */
  const char*   dflt_prop;             /* property blamed for a crash outside any op */
} Scenario;

extern const Scenario scen_containers, scen_heap, scen_exc, scen_threads,
                      scen_dispatch, scen_files;
const Scenario* scenario_find(const char* name);

/* ---------------------------------------------------------- reporting */
void ev(const char* fmt, ...) __attribute__((format(printf,1,2)));   /* trace event (hashed) */
void ev_u64(const char* tag, uint64_t v);
uint64_t trace_hash(void);
void viol(const char* prop, const char* cls, const char* fmt, ...)
  __attribute__((noreturn, format(printf,3,4)));
void stat_add(const char* key, long n);      /* counters aggregated by the driver */
void stat_max(const char* key, long n);
long stat_get(const char* key);
void mark_nontrivial(void);
void progress(int opidx, const char* prop, const char* opname);   /* crash attribution */
void note_other(const char* prop, const char* cls);  /* non-fatal observation */
const char* progress_prop(void);
const char* progress_opname(void);
int progress_opidx(void);
void transcript(const char* fmt, ...) __attribute__((format(printf,1,2))); /* C18 */
extern int sim_verbose;
extern int sim_transcript_fd;
extern const char* sim_focus_prop;   /* property whose check is running ("" = all) */

/* -------------------------------------------------------------- arena */
enum { PLACE_BUMP = 0, PLACE_LIFO = 1, PLACE_QUARANTINE = 2, PLACE_ADVERSARIAL = 3, PLACE_SEEDED = 4 };
enum { REALLOC_MOVE = 0, REALLOC_INPLACE = 1, REALLOC_SEEDED = 2 };
enum { TAG_NONE = 0, TAG_OBJ = 1, TAG_STORE = 2, TAG_HARNESS = 3 };
enum { BLK_UNKNOWN = 0, BLK_LIVE = 1, BLK_FREED = 2 };

struct ArenaStats { long mallocs, callocs, reallocs, frees, moves, inplace, reuses, foreign_frees; };
extern struct ArenaStats arena_stats;

void   arena_on(uint64_t seed, uint64_t run, int place, int reallocpol, int advmod);
void   arena_off(void);
int    arena_active(void);
int    arena_owns(const void* p);
int    arena_state(const void* p);            /* state of the block that STARTS at p */
size_t arena_block_size(const void* p);       /* requested size of live block starting at p, else 0 */
int    arena_find(const void* p, void** start, size_t* size, int* state); /* block containing p */
void   arena_tag(void* p, int tag);
int    arena_get_tag(const void* p);
long   arena_live_count(void);
long   arena_live_bytes(void);
long   arena_gen(const void* p);
typedef void (*arena_iter_fn)(void* p, size_t size, int tag, void* ud);
void   arena_foreach_live(arena_iter_fn fn, void* ud);
extern void (*arena_on_free)(void* p, size_t size, int tag);
extern void (*arena_on_error)(const char* kind, void* p);
extern void (*arena_yield)(int site);
extern long arena_fail_after;   /* >0: the n-th allocation from now fails (unused by checks) */
/* harness allocations that must not count as library blocks */
void*  harness_alloc(size_t n);

/* ---------------------------------------------------------- scheduler */
enum { SITE_MALLOC = 100, SITE_FREE = 101, SITE_GETSPECIFIC = 102, SITE_MUTEX = 103,
       SITE_JOIN = 104, SITE_CREATE = 105, SITE_EXPLICIT = 106, SITE_EXIT = 107 };
void sched_init(const Plan* p);          /* installs yield hooks */
void sim_yield(int site);
void sim_pause(void);
int  sched_self(void);                   /* simulated thread id, 0 = main */
long sched_switches(void);
long sched_yields(void);
int  sched_nthreads(void);
extern long sched_lib_switches;
extern long sched_hook_switches[16];          /* context switches at library-internal sites */
void sched_stats_flush(void);
int  sched_thread_done(int tid);

/* ---------------------------------------------------------------- vfs */
void vfs_reset(void);
struct VfsStats { long opens, closes, double_closes, foreign_closes, null_closes, use_after_close, null_uses,
                  reads, writes, seeks, faults_fired; };
extern struct VfsStats vfs_stats;

/* ---------------------------------------------------------- utilities */
void sim_scrub_stack(void);
void glue_gc_prime(int d);   /* cglue.c: make the calling thread's collector collect on its (d+1)-th next registration */
uint64_t fnv1a(const void* data, size_t n, uint64_t h);
#define FNV_INIT 1469598103934665603ULL

#endif
