/* Scenario engine "containers": Table, Tree, Array, List, Tuple, String driven
 * through the public API against reference models, with allocator policies,
 * collector-managed instances + allocation-pressure bursts, invalid-call
 * injection, twin/copy/assign/swap pairs.  Serves C02 C03 C04 C05 C10 C12 C16
 * C18 C19 (a check gates only on its own property's classes). */
#define _GNU_SOURCE
#include "cglue.h"
#include <limits.h>

/* ------------------------------------------------------------ op codes */
enum {
  O_NEW, O_DEL, O_PUSH, O_POP, O_PUSH_AT, O_POP_AT, O_SET, O_GET, O_REM, O_MEM,
  O_CONCAT, O_RESIZE, O_SORT, O_ASSIGN, O_COPY, O_TWIN, O_SWAP, O_CHECK,
  O_SASSIGN, O_SCONCAT, O_SREM, O_SMEM, O_SPRINT, O_BAD, O_BURST, O_VIEW, O_SWAPV, O_ELEMCAT, O_NOPS
};
static const OpInfo OPS[O_NOPS] = {
  [O_NEW]    = { "new", 5 },      /* kind ktype vtype managed ninit */
  [O_DEL]    = { "del", 1 },      /* c */
  [O_PUSH]   = { "push", 3 },     /* c v useappend */
  [O_POP]    = { "pop", 1 },      /* c */
  [O_PUSH_AT]= { "push_at", 3 },  /* c v i */
  [O_POP_AT] = { "pop_at", 2 },   /* c i */
  [O_SET]    = { "set", 4 },      /* c i|k v flags (maps: 1 = the value argument is a value stored in the same map, 2 = update every
                                     binding through the keys the iteration hands out) */
  [O_GET]    = { "get", 2 },      /* c i|k */
  [O_REM]    = { "rem", 2 },      /* c v|k */
  [O_MEM]    = { "mem", 2 },      /* c v|k */
  [O_CONCAT] = { "concat", 2 },   /* c src */
  [O_RESIZE] = { "resize", 2 },   /* c n */
  [O_SORT]   = { "sort", 2 },     /* c mode */
  [O_ASSIGN] = { "assign", 2 },   /* dst src */
  [O_COPY]   = { "copy", 1 },     /* c */
  [O_TWIN]   = { "twin", 2 },     /* c variant */
  [O_SWAP]   = { "swap", 2 },     /* a b */
  [O_CHECK]  = { "check", 1 },    /* c */
  [O_SASSIGN]= { "s_assign", 3 }, /* c mode x */
  [O_SCONCAT]= { "s_concat", 4 }, /* c mode x useappend */
  [O_SREM]   = { "s_rem", 3 },    /* c mode x */
  [O_SMEM]   = { "s_mem", 3 },    /* c mode x */
  [O_SPRINT] = { "s_print", 4 },  /* c pos fmt x */
  [O_BAD]    = { "bad", 3 },      /* c kind x */
  [O_BURST]  = { "burst", 1 },    /* n */
  [O_SWAPV]  = { "swapv", 3 },    /* type a b : swap / copy / assign of two plain values */
  [O_ELEMCAT] = { "elemcat", 2 }, /* cont start : in-place concat / append on a String stored inside a container */
  [O_VIEW]   = { "view", 4 },     /* c kind a b : iterate a view of a sequence (slice / zip / enumerate / filter / map / range) */
};

enum { K_ARRAY, K_LIST, K_TUPLE, K_TABLE, K_TREE, K_STRING, K_NKINDS };
enum { ET_INT, ET_FLT, ET_STR, ET_TOK, ET_CKEY, ET_P12, ET_NTYPES };
static const char* KNAME[] = { "Array", "List", "Tuple", "Table", "Tree", "String" };
static const char* ENAME[] = { "Int", "Float", "String", "Tok", "CKey", "P12" };

#define MAXC 4
#define MAXN 400          /* model capacity per container */
#define SBUF 8192

typedef struct {
  int   live, kind, kt, vt, managed;
  var   obj;
  int   n;                       /* model length */
  int64_t k[MAXN];               /* seq: element values (Tuple: pool index); map: key pool index */
  int64_t v[MAXN];               /* map: values */
  char* s;                       /* string model (harness memory) */
  int   grow, shrink;            /* coverage */
} Cont;

static Cont C[MAXC];
static volatile var* g_roots;    /* stack slots that keep managed containers reachable */
static int g_focus;
static int64_t g_kf_enable;      /* known-finding triggers the plan asks for (default none) */
static int g_transcript;
static int g_opidx;

/* ------------------------------------------------------------- values */
#define NSTR 64
static char  g_strpool[NSTR][24];
static int   g_strpool_ready;
#define ADVM (5LL*11*23*53*101)

/* plain struct element type whose size (12) is not a multiple of the word size; no class instances at all */
struct E12 { int32_t a, b, c; };
static var E12 = Cello(E12);
static struct E12 e12val(int64_t v) { struct E12 x = { (int32_t)v, (int32_t)(v ^ 0x5555), (int32_t)(~v) }; return x; }

/* 7777.. are special values: -0.0 and distinct doubles closer together than any float can tell apart */
static double fltval(int64_t v) {
  switch (v) { case 7777: return -0.0; case 7778: return 2.2250738585072014e-308; case 7779: return 4.9406564584124654e-324;
               case 7780: return 1e-300; case 7781: return 2e-300; default: return (double)v * 0.25; }
}
static int64_t normv(int et, int64_t v) {
  if (et == ET_STR) { int64_t m = v % NSTR; return m < 0 ? m + NSTR : m; }
  if (et == ET_FLT) { if (v >= 7777 && v <= 7781) return v; int64_t m = v % 4001; return m; }
  return v;
}
static const char* strval(int64_t v) { return g_strpool[normv(ET_STR, v)]; }
static var ETYPE(int et) {
  switch (et) { case ET_INT: return Int; case ET_FLT: return Float; case ET_STR: return String;
                case ET_TOK: return Tok; case ET_P12: return E12; default: return CKey; }
}
#define MKVAL(et, v) ((et)==ET_INT ? (var)$I(v) : (et)==ET_FLT ? (var)$F(fltval(v)) : \
  (et)==ET_STR ? (var)$S((char*)strval(v)) : (et)==ET_TOK ? (var)TOK_T(v) : \
  (et)==ET_P12 ? (var)$(E12, (int32_t)(v), (int32_t)((v) ^ 0x5555), (int32_t)(~(v))) : (var)$(CKey, (v)))

static int vcmp(int et, int64_t a, int64_t b) {
  if (et == ET_FLT) { double x = fltval(a), y = fltval(b); return x < y ? -1 : x > y ? 1 : 0; }
  if (et == ET_STR) { int c = strcmp(strval(a), strval(b)); return c < 0 ? -1 : c > 0 ? 1 : 0; }
  if (et == ET_P12) { struct E12 x = e12val(a), y = e12val(b); int c = memcmp(&x, &y, sizeof x); return c < 0 ? -1 : c > 0 ? 1 : 0; }   /* plain structs compare byte-wise */
  return a < b ? -1 : a > b ? 1 : 0;
}
static int veq(int et, int64_t a, int64_t b) { return vcmp(et, a, b) == 0; }

/* string pool: 24 keys whose Cello hash collides modulo 5*11*23*53, then ordinary
 * and structured ones.  Computed once (in the parent) through the public hash_data,
 * which String's hash is defined by, so a changed hash function re-derives the pool. */
static void strpool_init(void) {
  if (g_strpool_ready) return;
  int n = 0;
  uint64_t want = 0; int have = 0;
  const uint64_t M = 5ULL*11*23*53;
  for (uint32_t i = 0; n < 24 && i < 40000000u; i++) {
    char b[24]; int l = snprintf(b, sizeof b, "k%u", i);
    uint64_t h = hash_data(b, (size_t)l) % M;
    if (!have) { want = h; have = 1; }
    if (h == want) { memcpy(g_strpool[n++], b, (size_t)l + 1); }
  }
  static const char* fixed[] = { "", "a", "ab", "abc", "b", "ba", "\xff", "a\xff", "Z", "z",
                                 "hello", "hello world", "\x01", "~", "aa", "aaa" };
  for (int i = 0; i < 16 && n < NSTR; i++) strcpy(g_strpool[n++], fixed[i]);
  for (int i = 0; n < NSTR; i++) snprintf(g_strpool[n++], 24, "s%d", i);
  g_strpool_ready = 1;
}

/* key pools (index -> value) */
#define NKEY 64
static int64_t tblkey_int(int64_t idx) {
  int i = (int)(((idx % NKEY) + NKEY) % NKEY);
  /* eight keys that collide with the 3+i*ADVM family in every table size and differ from key 3 (and from each other)
   * by multiples of 2^32: only a comparison of all 64 bits tells them apart */
  if (idx >= 88 && idx < 96) return 3 + (((int64_t)(idx - 87) * ADVM) << 32);
  if (i < 28) return 3 + (int64_t)i * ADVM;
  if (i < 44) return 4 + (int64_t)(i - 28) * ADVM;
  return i - 44;
}
static const int64_t BND[] = {
  0, 1, -1, 2, -2, INT32_MAX, INT32_MIN, (int64_t)INT32_MAX + 1, (int64_t)INT32_MIN - 1,
  1LL << 32, -(1LL << 32), (1LL << 32) + 1, (1LL << 62), -(1LL << 62), INT64_MAX, INT64_MIN,
  INT64_MAX - 1, INT64_MIN + 1, 1LL << 31, 3LL << 31, 5, 7, 100, -100
};
#define NBND ((int)(sizeof BND / sizeof BND[0]))
static int64_t treekey_int(int64_t idx) {
  int i = (int)(((idx % 96) + 96) % 96);
  if (i < NBND) return BND[i];
  return (i - NBND) * 3 - 60;
}
/* value of key #idx for a map of kind/ktype */
static int64_t keyval(int kind, int kt, int64_t idx) {
  if (kt == ET_STR) return normv(ET_STR, idx);
  if (kt == ET_CKEY) { int64_t m = idx % 200; return m < 0 ? m + 200 : m; }
  if (kt == ET_P12) { int64_t m = idx % 120; return (m < 0 ? m + 120 : m) - 30; }
  if (kt == ET_FLT) return normv(ET_FLT, idx);
  return kind == K_TABLE ? tblkey_int(idx) : treekey_int(idx);
}
static int64_t seqval(int et, int64_t x) {
  if (et == ET_INT) { int64_t m = ((x % 200) + 200) % 200; return m < NBND ? BND[m] : (m % 17) - 5; }
  if (et == ET_TOK || et == ET_CKEY) return ((x % 40) + 40) % 40;
  if (et == ET_P12) return ((x % 60) + 60) % 60 - 10;
  if (et == ET_FLT) { int64_t m = ((x % 50) + 50) % 50; return m == 0 ? 0 : (m >= 1 && m <= 5) ? 7776 + m : normv(et, x); }
  return normv(et, x);
}

/* Tuple element pool: distinct heap Int objects owned by the harness */
#define NPOOL 4096
static var* g_pool; static int g_npool;
static int pool_new(int64_t val) {
  if (!g_pool) g_pool = harness_alloc(sizeof(var) * NPOOL);
  if (g_npool >= NPOOL) viol("C04", "C04:harness:pool", "tuple pool exhausted");
  var o = new_raw(Int, $I(val));
  g_pool[g_npool] = o;
  return g_npool++;
}
static int64_t pool_val(int64_t idx) { return c_int(g_pool[idx]); }

/* ----------------------------------------------------------- reporting */
static const char* cont_prop(const Cont* c) {
  switch (c->kind) { case K_TABLE: return "C02"; case K_TREE: return "C03"; case K_STRING: return "C16"; default: return "C04"; }
}
static const char* g_bad_pending;   /* set while re-checking a container after an injected invalid call */
static const char* g_bad_prop = "C12";
static void c05_last_word(void);
#define VIOL(c, what, ...) do { char cls__[128]; \
  if (g_focus == 5) c05_last_word(); \
  if (g_bad_pending) { snprintf(cls__, sizeof cls__, "%s:state-changed:%s:%s", g_bad_prop, g_bad_pending, KNAME[(c)->kind]); viol(g_bad_prop, cls__, __VA_ARGS__); } \
  snprintf(cls__, sizeof cls__, "%s:%s:%s", cont_prop(c), what, KNAME[(c)->kind]); \
  viol(cont_prop(c), cls__, __VA_ARGS__); } while (0)

static const char* g_lastop = "new";
#define TR(...) do { if (g_transcript) transcript(__VA_ARGS__); } while (0)

/* read an element back into model space; returns 0 if it is not a well formed value */
static int elem_matches(int et, var p, int64_t v) {
  switch (et) {
    case ET_INT: return c_int(p) == v;
    case ET_FLT: { double d = c_float(p), w = fltval(v); return d == w; }
    case ET_STR: return strcmp(c_str(p), strval(v)) == 0;
    case ET_TOK: { struct Tok* t = p; return t->val == v; }
    case ET_P12: { struct E12 w = e12val(v); return memcmp(p, &w, sizeof w) == 0; }
    default:     return ((struct CKey*)p)->val == v;
  }
}

static void check_handed_out(Cont* c, var p, int et, const char* how) {
  /* C19: objects obtained from containers carry the element type and are tagged as embedded */
  if (c->kind == K_TUPLE) return;
  var volatile tv = NULL; var volatile hx = NULL;
  try { tv = type_of(p); } catch (e) { hx = e; }
  if (hx) {
    char cls[96]; snprintf(cls, sizeof cls, "C19:invalid-header:%s:%s", KNAME[c->kind], how);
    viol("C19", cls, "object from %s via %s has no valid header (type_of raised %s) after %s", KNAME[c->kind], how, exc_name(hx), g_lastop);
  }
  var t = tv;
  if (t isnt ETYPE(et)) {
    char cls[96]; snprintf(cls, sizeof cls, "C19:wrong-type:%s:%s", KNAME[c->kind], how);
    viol("C19", cls, "object from %s via %s has type %s, expected %s", KNAME[c->kind], how, c_str(t), ENAME[et]);
  }
  if (g_focus == 19 || g_focus == 0) {
    /* size(type) bytes of the object must lie inside one live block of its container's storage */
    void* bs; size_t bsz; int bst;
    size_t need = size(ETYPE(et));
    if (!arena_find(p, &bs, &bsz, &bst) || bst != BLK_LIVE || (char*)p + need > (char*)bs + bsz) {
      char cls[96]; snprintf(cls, sizeof cls, "C19:size-not-usable:%s:%s", KNAME[c->kind], how);
      viol("C19", cls, "object of type %s from %s via %s does not have size(type)=%zu usable bytes inside its block (after %s)", ENAME[et], KNAME[c->kind], how, need, g_lastop);
    }
  }
#if CELLO_ALLOC_CHECK == 1
  if (header(p)->alloc isnt (var)AllocData) {
    char cls[96]; snprintf(cls, sizeof cls, "C19:wrong-alloc-class:%s:%s", KNAME[c->kind], how);
    viol("C19", cls, "element of %s via %s has allocation class %ld, expected AllocData", KNAME[c->kind], how, (long)(intptr_t)header(p)->alloc);
  }
#endif
}

/* ------------------------------------------------------ sequence check */
static void check_seq(Cont* c) {
  var o = c->obj;
  size_t L = len(o);
  TR("len %zu", L);
  if ((int)L != c->n) VIOL(c, "len-mismatch", "len=%zu model=%d after %s", L, c->n, g_lastop);
  int et = c->kt;
  for (int i = 0; i < c->n; i++) {
    var p = get(o, $I(i));
    var q = get(o, $I(i - c->n));
    if (p isnt q) VIOL(c, "neg-index-mismatch", "get(%d) and get(%d) differ after %s", i, i - c->n, g_lastop);
    if (c->kind == K_TUPLE) {
      if (p isnt g_pool[c->k[i]]) VIOL(c, "elem-mismatch", "position %d holds another object after %s", i, g_lastop);
      TR("e %d %lld", i, (long long)c_int(p));
    } else {
      check_handed_out(c, p, et, "get");
      if (!elem_matches(et, p, c->k[i])) VIOL(c, "elem-mismatch", "position %d differs from model after %s", i, g_lastop);
      if (g_transcript) {
        if (et == ET_FLT) TR("e %d %.17g", i, c_float(p));
        else if (et == ET_P12) TR("e %d p%d", i, (int)((struct E12*)p)->a);
        else if (et == ET_STR) TR("e %d %s", i, c_str(p));
        else TR("e %d %lld", i, (long long)c_int(p));
      }
    }
  }
  /* forward iteration */
  int i = 0;
  foreach (it in o) {
    if (i >= c->n) VIOL(c, "iter-too-long", "iteration yields more than %d items after %s", c->n, g_lastop);
    if (c->kind == K_TUPLE) { if (it isnt g_pool[c->k[i]]) VIOL(c, "iter-mismatch", "iteration item %d differs after %s", i, g_lastop); }
    else {
      if (it isnt get(o, $I(i))) VIOL(c, "iter-mismatch", "iteration item %d is not get(%d) after %s", i, i, g_lastop);
    }
    i++;
  }
  if (i != c->n) VIOL(c, "iter-too-short", "iteration yields %d of %d items after %s", i, c->n, g_lastop);
}

/* ----------------------------------------------------------- map check */
static int map_find(Cont* c, int64_t kv) {
  for (int i = 0; i < c->n; i++) if (veq(c->kt, c->k[i], kv)) return i;
  return -1;
}

static int g_npoolkeys(const Cont* c) {
  if (c->kt == ET_STR) return NSTR;
  if (c->kt == ET_CKEY) return 200;
  if (c->kt == ET_P12) return 120;
  return c->kind == K_TABLE ? NKEY : 96;
}

static void check_rb(Cont* c);

static void check_map(Cont* c, int full) {
  var o = c->obj;
  size_t L = len(o);
  TR("len %zu", L);
  if ((int)L != c->n) VIOL(c, "len-mismatch", "len=%zu model=%d after %s", L, c->n, g_lastop);
  int np = g_npoolkeys(c);
  int stride = full ? 1 : 3;
  for (int idx = (full ? 0 : g_opidx % 3); idx < np; idx += stride) {
    int64_t kv = keyval(c->kind, c->kt, idx);
    int mi = map_find(c, kv);
    bool m = mem(o, MKVAL(c->kt, kv));
    if (m != (mi >= 0)) VIOL(c, mi >= 0 ? "lost-key" : "phantom-key", "mem(key#%d)=%d model=%d after %s", idx, (int)m, mi >= 0, g_lastop);
    if (mi >= 0) {
      var volatile ex = NULL; var volatile got = NULL;
      try { got = get(o, MKVAL(c->kt, kv)); } catch (e) { ex = e; }
      if (ex) VIOL(c, "get-raised", "get(key#%d) raised %s though bound, after %s", idx, exc_name(ex), g_lastop);
      check_handed_out(c, got, c->vt, "get");
      if (!elem_matches(c->vt, got, c->v[mi])) VIOL(c, "value-mismatch", "get(key#%d) differs from model after %s", idx, g_lastop);
    }
  }
  /* iteration: each bound key exactly once */
  static unsigned char seen[MAXN];
  memset(seen, 0, sizeof seen);
  int cnt = 0;
  int64_t prev = 0; int have_prev = 0, dir = 0;
  foreach (key in o) {
    if (++cnt > c->n) VIOL(c, "iter-too-long", "iteration yields more than %d keys after %s", c->n, g_lastop);
    check_handed_out(c, key, c->kt, "iter");
    int hit = -1;
    for (int i = 0; i < c->n; i++) if (elem_matches(c->kt, key, c->k[i])) { hit = i; break; }
    if (hit < 0) VIOL(c, "iter-phantom-key", "iteration yields a key the model does not bind, after %s", g_lastop);
    if (seen[hit]) VIOL(c, "iter-duplicate-key", "iteration yields a key twice after %s", g_lastop);
    seen[hit] = 1;
    if (c->kind == K_TREE) {
      if (have_prev) {
        int d = vcmp(c->kt, prev, c->k[hit]);
        if (d == 0 || (dir && d != dir)) VIOL(c, "iter-not-monotone", "forward iteration is not strictly monotone after %s", g_lastop);
        dir = d;
      }
      prev = c->k[hit]; have_prev = 1;
      if (g_transcript) {
        if (c->kt == ET_STR) TR("k %s", c_str(key)); else if (c->kt == ET_P12) TR("k p%d", (int)((struct E12*)key)->a); else TR("k %lld", (long long)c_int(key));
      }
    }
    var val = get(o, key);
    if (!elem_matches(c->vt, val, c->v[hit])) VIOL(c, "value-mismatch", "value reached through iteration differs from model after %s", g_lastop);
  }
  if (cnt != c->n) VIOL(c, "iter-too-short", "iteration yields %d of %d keys after %s", cnt, c->n, g_lastop);
  if (c->kind == K_TREE && c->kt == ET_CKEY && c->n > 0) {
    /* black-box cross-check of balance: a lookup compares at most height <= 2*log2(n+1) keys (CKey counts its comparisons) */
    double bound = 2.0 * (log((double)c->n + 1.0) / log(2.0)) + 1.0;
    for (int probe = 0; probe < 3; probe++) {
      int64_t kv = probe == 0 ? c->k[0] : probe == 1 ? c->k[c->n - 1] : keyval(K_TREE, ET_CKEY, g_opidx * 7 + 3);
      long before = ckey_cmp_calls;
      (void)mem(o, MKVAL(ET_CKEY, kv));
      long used = ckey_cmp_calls - before;
      if ((double)used > bound + 1e-9) VIOL(c, "lookup-not-logarithmic", "a lookup among %d keys made %ld comparisons (bound %.1f) after %s", c->n, used, bound, g_lastop);
      stat_max("tree.max_cmp_per_lookup", used);
    }
  }
  if (c->kind == K_TREE) {
    /* backward iteration must be the exact reverse of forward iteration */
    static var fwd[MAXN];
    int nf = 0;
    foreach (key in o) { if (nf < MAXN) fwd[nf++] = key; }
    struct Iter* it = instance(o, Iter);
    int j = nf;
    for (var cur = it->iter_last(o); cur isnt Terminal; cur = it->iter_prev(o, cur)) {
      if (j <= 0) VIOL(c, "back-iter-too-long", "backward iteration yields more than %d keys after %s", nf, g_lastop);
      j--;
      if (cur isnt fwd[j]) VIOL(c, "back-iter-mismatch", "backward iteration is not the reverse of forward iteration after %s", g_lastop);
    }
    if (j != 0) VIOL(c, "back-iter-too-short", "backward iteration yields %d of %d keys after %s", nf - j, nf, g_lastop);
    check_rb(c);
  }
}

/* red-black validity through the read-only accessor hook */
#ifdef CELLO_VERIF
static int rb_walk(Cont* c, var node, var parent, int depth, int* count, int* maxdepth) {
  if (node is NULL) return 1;
  var l, r, p, k, v; bool red;
  Cello_Verif_Tree_Node(c->obj, node, &l, &r, &p, &red, &k, &v);
  if (p isnt parent) VIOL(c, "rb-parent-link", "a node's parent link is wrong after %s", g_lastop);
  if (++(*count) > c->n + 1) VIOL(c, "rb-node-count", "more nodes than len after %s", g_lastop);
  if (depth + 1 > *maxdepth) *maxdepth = depth + 1;
  bool lred = false, rred = false;
  if (l) Cello_Verif_Tree_Node(c->obj, l, NULL, NULL, NULL, &lred, NULL, NULL);
  if (r) Cello_Verif_Tree_Node(c->obj, r, NULL, NULL, NULL, &rred, NULL, NULL);
  if (red && (lred || rred)) VIOL(c, "rb-red-red", "red node with red child after %s", g_lastop);
  int bl = rb_walk(c, l, node, depth + 1, count, maxdepth);
  int br = rb_walk(c, r, node, depth + 1, count, maxdepth);
  if (bl != br) VIOL(c, "rb-black-height", "black heights differ (%d vs %d) after %s", bl, br, g_lastop);
  return bl + (red ? 0 : 1);
}
static void check_rb(Cont* c) {
  size_t ni = 0;
  var root = Cello_Verif_Tree_Root(c->obj, &ni);
  if ((int)ni != c->n) VIOL(c, "len-mismatch", "internal count %zu model %d after %s", ni, c->n, g_lastop);
  if (root is NULL) { if (c->n) VIOL(c, "rb-node-count", "empty root but %d bindings after %s", c->n, g_lastop); return; }
  bool red;
  Cello_Verif_Tree_Node(c->obj, root, NULL, NULL, NULL, &red, NULL, NULL);
  if (red) VIOL(c, "rb-red-root", "root is red after %s", g_lastop);
  int count = 0, maxdepth = 0;
  rb_walk(c, root, NULL, 0, &count, &maxdepth);
  if (count != c->n) VIOL(c, "rb-node-count", "%d nodes for %d bindings after %s", count, c->n, g_lastop);
  /* height <= 2*log2(n+1) */
  int lg = 0; while ((1L << (lg + 1)) <= (long)c->n + 1) lg++;   /* floor(log2(n+1)) */
  double bound = 2.0 * (log((double)c->n + 1.0) / log(2.0));
  if ((double)maxdepth > bound + 1e-9) VIOL(c, "rb-height", "height %d exceeds 2*log2(%d+1) after %s", maxdepth, c->n, g_lastop);
  stat_max("tree.maxheight", maxdepth);
  (void)lg;
}
#else
static void check_rb(Cont* c) { (void)c; }
#endif

/* --------------------------------------------------------- string check */
static void check_str(Cont* c) {
  var o = c->obj;
  char* p = c_str(o);
  /* the characters must lie in a live block of the String's own; where in that block they start is the implementation's business */
  size_t bs = 0;
  { void* st_ = NULL; size_t sz_ = 0; int state_ = 0;
    if (arena_find(p, &st_, &sz_, &state_) && state_ == 1 && (char*)p < (char*)st_ + sz_) bs = (size_t)((char*)st_ + sz_ - (char*)p); }
  size_t ml = strlen(c->s);
  if (bs == 0) VIOL(c, "buffer-not-live", "c_str does not point at a live block after %s", g_lastop);
  /* NUL inside its own allocation */
  size_t i = 0; while (i < bs && p[i]) i++;
  if (i >= bs) VIOL(c, "unterminated", "no NUL inside the %zu-byte allocation after %s", bs, g_lastop);
  if (i != ml || memcmp(p, c->s, ml) != 0) VIOL(c, "content-mismatch", "content differs from model (len %zu vs %zu) after %s", i, ml, g_lastop);
  if (len(o) != ml) VIOL(c, "len-mismatch", "len=%zu model=%zu after %s", len(o), ml, g_lastop);
  TR("s %s", p);
  if (hash(o) != hash_data(c->s, ml)) VIOL(c, "hash-mismatch", "hash differs from hash_data of the bytes after %s", g_lastop);
  static const char* probes[] = { "", "a", "ab", "b", "zzz" };
  for (int k = 0; k < 5; k++) {
    int cc = cmp(o, $S((char*)probes[k])); int mc = strcmp(c->s, probes[k]);
    if ((cc < 0) != (mc < 0) || (cc > 0) != (mc > 0)) VIOL(c, "cmp-mismatch", "cmp against \"%s\" disagrees with strcmp after %s", probes[k], g_lastop);
    bool mm = mem(o, $S((char*)probes[k]));
    if (mm != (strstr(c->s, probes[k]) != NULL)) VIOL(c, "mem-mismatch", "mem(\"%s\") disagrees with strstr after %s", probes[k], g_lastop);
  }
  if (!eq(o, $S(c->s))) VIOL(c, "eq-mismatch", "eq against an equal stack String is false after %s", g_lastop);
}

/* ------------------------------------------------------- element ledger */
static int any_tok(void) {
  for (int i = 0; i < MAXC; i++) if (C[i].live && (C[i].kt == ET_TOK || ((C[i].kind == K_TABLE || C[i].kind == K_TREE) && C[i].vt == ET_TOK))) return 1;
  return tok_issued() > 0;
}
static void check_ledger(void) {
  if (!any_tok()) return;
  long expect = 0;
  tok_scan_begin();
  for (int i = 0; i < MAXC; i++) {
    Cont* c = &C[i];
    if (!c->live || c->kind == K_STRING || c->kind == K_TUPLE) continue;
    if (c->kind == K_TABLE || c->kind == K_TREE) {
      foreach (key in c->obj) {
        if (c->kt == ET_TOK) { tok_scan_see(key, KNAME[c->kind]); expect++; }
        if (c->vt == ET_TOK) { tok_scan_see(get(c->obj, key), KNAME[c->kind]); expect++; }
      }
    } else if (c->kt == ET_TOK) {
      foreach (item in c->obj) { tok_scan_see(item, KNAME[c->kind]); expect++; }
    }
  }
  tok_scan_end("C05", expect);
}

static void table_cov(Cont* c);
/* While the C05 check runs, a container that disagrees with its model (another property's business) must not end the run
 * before C05's own oracles have spoken: the element ledger is evaluated, then every container is deleted and the live count
 * must drop to zero.  Only then is the model violation reported under its own name. */
static void del_cont(Cont* c);
static void c05_last_word(void) {
  static int busy;
  if (busy) return;
  busy = 1;
  progress(g_opidx, "C05", "ledger-after-model-mismatch");
  check_ledger();
  for (int k = 0; k < MAXC; k++) if (C[k].live) del_cont(&C[k]);
  if (tok_live() != 0) viol("C05", "C05:leaked-elements", "%ld elements still live after every container was deleted (after %s)", tok_live(), g_lastop);
  busy = 0;
}

static void check_cont(Cont* c, int full) {
  if (!c->live) return;
  table_cov(c);
  if (c->managed) {
#ifndef CELLO_NGC
    if (!mem(current(GC), c->obj))
      viol("C01", "C01:reachable-container-dropped", "managed %s referenced from the stack is no longer registered", KNAME[c->kind]);
#endif
  }
  if (c->kind == K_STRING) check_str(c);
  else if (c->kind == K_TABLE || c->kind == K_TREE) check_map(c, full);
  else check_seq(c);
}


/* ------------------------------------------------ white-box coverage probes */
#ifdef CELLO_VERIF
static size_t g_tbl_slots[MAXC];
static void table_cov(Cont* c) {
  if (c->kind != K_TABLE || !c->live) return;
  size_t ns = 0, ni = 0;
  Cello_Verif_Table_Info(c->obj, &ns, &ni);
  size_t* last = &g_tbl_slots[c - C];
  if (*last && ns > *last) stat_add("table.rehash_up", 1);
  if (*last && ns < *last && ns != 0) stat_add("table.rehash_down", 1);
  *last = ns;
  stat_max("table.max_slots", (long)ns);
  for (size_t i = 0; i < ns; i++) {
    uint64_t h;
    if (!Cello_Verif_Table_Slot(c->obj, i, &h, NULL, NULL)) continue;
    size_t home = (size_t)(h - 1);
    if (home > i) { stat_add("table.probe_wrapped", 1); break; }
  }
}
static int table_key_displaced(Cont* c, int64_t kv) {
  size_t ns = 0;
  Cello_Verif_Table_Info(c->obj, &ns, NULL);
  for (size_t i = 0; i < ns; i++) {
    uint64_t h; var k;
    if (!Cello_Verif_Table_Slot(c->obj, i, &h, &k, NULL)) continue;
    if (elem_matches(c->kt, k, kv)) return (size_t)(h - 1) != i;
  }
  return 0;
}
static var tree_find_node(Cont* c, var node, int64_t kv) {
  while (node) {
    var l, r, k;
    Cello_Verif_Tree_Node(c->obj, node, &l, &r, NULL, NULL, &k, NULL);
    if (elem_matches(c->kt, k, kv)) return node;
    /* the tree keeps larger keys on the left (descends left when stored < sought) */
    int64_t stored = 0; int found = 0;
    for (int i = 0; i < c->n; i++) if (elem_matches(c->kt, k, c->k[i])) { stored = c->k[i]; found = 1; break; }
    if (!found) return NULL;
    node = vcmp(c->kt, stored, kv) < 0 ? l : r;
  }
  return NULL;
}
static void tree_classify_rem(Cont* c, int64_t kv) {
  var root = Cello_Verif_Tree_Root(c->obj, NULL);
  var node = tree_find_node(c, root, kv);
  if (!node) return;
  var l, r, p; bool red;
  Cello_Verif_Tree_Node(c->obj, node, &l, &r, &p, &red, NULL, NULL);
  if (node is root) stat_add("tree.rem_root", 1);
  if (l && r) { stat_add("tree.rem_two_children", 1);
    /* the node physically unlinked is the predecessor */
    var q = l, ql, qr; bool qred;
    for (;;) { Cello_Verif_Tree_Node(c->obj, q, &ql, &qr, NULL, &qred, NULL, NULL); if (!qr) break; q = qr; }
    l = ql; r = NULL; red = qred; node = q;
    Cello_Verif_Tree_Node(c->obj, node, NULL, NULL, &p, NULL, NULL, NULL);
  }
  if (red) { stat_add("tree.rem_red_leaf", 1); return; }
  if (l || r) { stat_add("tree.rem_black_one_child", 1); return; }
  if (!p) return;
  /* black leaf: the double-black repair runs; classify by sibling and nephews */
  var pl, pr; bool pred;
  Cello_Verif_Tree_Node(c->obj, p, &pl, &pr, NULL, &pred, NULL, NULL);
  var sib = pl is node ? pr : pl;
  if (!sib) return;
  var sl, sr; bool sred, slred = false, srred = false;
  Cello_Verif_Tree_Node(c->obj, sib, &sl, &sr, NULL, &sred, NULL, NULL);
  if (sl) Cello_Verif_Tree_Node(c->obj, sl, NULL, NULL, NULL, &slred, NULL, NULL);
  if (sr) Cello_Verif_Tree_Node(c->obj, sr, NULL, NULL, NULL, &srred, NULL, NULL);
  if (sred) stat_add("tree.fix_red_sibling", 1);
  else if (!slred && !srred) stat_add(pred ? "tree.fix_black_sib_red_parent" : "tree.fix_black_sib_black_parent", 1);
  else {
    int near_red = (pl is node) ? slred : srred, far_red = (pl is node) ? srred : slred;
    stat_add(far_red ? "tree.fix_far_nephew_red" : (near_red ? "tree.fix_near_nephew_red" : "tree.fix_other"), 1);
  }
}
#else
static void table_cov(Cont* c) { (void)c; }
static int table_key_displaced(Cont* c, int64_t kv) { (void)c; (void)kv; return 0; }
static void tree_classify_rem(Cont* c, int64_t kv) { (void)c; (void)kv; }
#endif

/* =================================================================== ops */
static int is_seq(int k) { return k == K_ARRAY || k == K_LIST || k == K_TUPLE; }
static int is_map(int k) { return k == K_TABLE || k == K_TREE; }
static int int_like(int et) { return et == ET_INT || et == ET_TOK || et == ET_CKEY; }

static Cont* pick(int64_t a) {
  int idx[MAXC], n = 0;
  for (int i = 0; i < MAXC; i++) if (C[i].live) idx[n++] = i;
  if (!n) return NULL;
  return &C[idx[(int)(((a % n) + n) % n)]];
}
static Cont* pick_other(int64_t a, Cont* notme) {
  int idx[MAXC], n = 0;
  for (int i = 0; i < MAXC; i++) if (C[i].live && &C[i] != notme) idx[n++] = i;
  if (!n) return NULL;
  return &C[idx[(int)(((a % n) + n) % n)]];
}
static Cont* free_slot(void) {
  for (int i = 0; i < MAXC; i++) if (!C[i].live) return &C[i];
  return NULL;
}
static void root_set(Cont* c) { g_roots[c - C] = c->managed ? c->obj : NULL; }

static int norm_index(int64_t r, int n) {      /* any integer -> index in [-n, n) */
  int64_t m = ((r % (2 * (int64_t)n)) + 2 * (int64_t)n) % (2 * (int64_t)n);
  return m < n ? (int)m : (int)(m - 2 * n);
}
static int pos_index(int i, int n) { return i < 0 ? n + i : i; }

static void model_insert(Cont* c, int at, int64_t v) {
  if (c->n >= MAXN) return;
  memmove(&c->k[at + 1], &c->k[at], sizeof(int64_t) * (size_t)(c->n - at));
  c->k[at] = v; c->n++;
}
static void model_remove(Cont* c, int at) {
  memmove(&c->k[at], &c->k[at + 1], sizeof(int64_t) * (size_t)(c->n - at - 1));
  c->n--;
}
static void map_model_remove(Cont* c, int at) {
  c->k[at] = c->k[c->n - 1]; c->v[at] = c->v[c->n - 1]; c->n--;
}

static var new_cont(int kind, int kt, int vt, int managed) {
  var T = kind == K_ARRAY ? Array : kind == K_LIST ? List : kind == K_TUPLE ? Tuple :
          kind == K_TABLE ? Table : kind == K_TREE ? Tree : String;
  if (is_map(kind)) return managed ? (var)new_with(T, tuple(ETYPE(kt), ETYPE(vt))) : (var)new_raw_with(T, tuple(ETYPE(kt), ETYPE(vt)));
  if (kind == K_STRING || kind == K_TUPLE) return managed ? (var)new_with(T, tuple()) : (var)new_raw_with(T, tuple());
  return managed ? (var)new_with(T, tuple(ETYPE(kt))) : (var)new_raw_with(T, tuple(ETYPE(kt)));
}

static void del_cont(Cont* c) {
  if (!c->live) return;
  g_roots[c - C] = NULL;
  if (c->managed) del(c->obj); else del_raw(c->obj);
  c->live = 0; c->obj = NULL; c->n = 0;
}

static void burst(int n) {
#ifndef CELLO_NGC
  for (int i = 0; i < n; i++) { volatile var junk = new(Int, $I(i)); (void)junk; }
  stat_add("gc.burst_allocs", n);
#else
  (void)n;
#endif
}

static int seq_elem_ok_types(int dst_et, int src_et) {
  if (dst_et == src_et) return 1;
  return int_like(dst_et) && int_like(src_et);
}

/* read the actual sequence back into model space (used where the model accepts a set of outcomes) */
static int seq_readback(Cont* c, int64_t* out, int cap) {
  int n = 0;
  size_t L = len(c->obj);
  for (size_t i = 0; i < L && n < cap; i++) {
    var p = get(c->obj, $I(i));
    if (c->kind != K_TUPLE) check_handed_out(c, p, c->kt, "get");
    if (c->kind == K_TUPLE) {
      int64_t idx = -1;
      for (int j = 0; j < g_npool; j++) if (g_pool[j] is p) { idx = j; break; }
      out[n++] = idx;
    } else switch (c->kt) {
      case ET_FLT: { double d = c_float(p); int64_t q = (int64_t)(d * 4.0);
                     for (int64_t sp = 7777; sp <= 7781; sp++) { double w = fltval(sp); if (memcmp(&w, &d, sizeof d) == 0) q = sp; }
                     out[n++] = q; break; }
      case ET_STR: { int64_t f = -1; for (int j = 0; j < NSTR; j++) if (!strcmp(g_strpool[j], c_str(p))) { f = j; break; } out[n++] = f; break; }
      case ET_P12: out[n++] = ((struct E12*)p)->a; break;
      default: out[n++] = c_int(p);
    }
  }
  return n;
}

static int64_t elemv(Cont* c, int i) { return c->kind == K_TUPLE ? pool_val(c->k[i]) : c->k[i]; }
/* an equal value with another representation, where the type has one (signed zero) */
static int64_t altv(int et, int64_t v) { if (et == ET_FLT) { if (v == 0) return 7777; if (v == 7777) return 0; } return v; }
static int elem_et(Cont* c) { return c->kind == K_TUPLE ? ET_INT : c->kt; }

/* string operand by mode */
static const char* sop(Cont* c, int64_t mode, int64_t x, char* buf, size_t cap) {
  size_t L = c ? strlen(c->s) : 0;
  int m = (int)(((mode % 7) + 7) % 7);
  uint64_t ux = (uint64_t)(x < 0 ? -x : x);
  switch (m) {
    case 0: return strval(x);
    case 1: { size_t l = L ? ux % (L + 1) : 0; memcpy(buf, c->s, l); buf[l] = 0; return buf; }          /* prefix */
    case 2: { size_t l = L ? ux % (L + 1) : 0; memcpy(buf, c->s + (L - l), l); buf[l] = 0; return buf; } /* suffix */
    case 3: { if (!L) { buf[0] = 0; return buf; } size_t st = ux % L; size_t l = 1 + (ux / 7) % (L - st); memcpy(buf, c->s + st, l); buf[l] = 0; return buf; }
    case 4: { snprintf(buf, cap, "%s", c ? c->s : ""); return buf; }                                       /* whole */
    case 5: return "\x02zq";                                                                               /* absent */
    default: { size_t l = 20 + ux % 300; if (l >= cap) l = cap - 1; for (size_t i = 0; i < l; i++) buf[i] = (char)('a' + (i * 7 + ux) % 26); buf[l] = 0; return buf; }
  }
}

static bool sort_gt(var a, var b) { return gt(a, b); }

static void do_new(const Op* o) {
  Cont* c = free_slot();
  if (!c) { c = pick(o->a[4]); del_cont(c); }
  memset(c, 0, sizeof *c);
  int kind = (int)(((o->a[0] % K_NKINDS) + K_NKINDS) % K_NKINDS);
  int kt = (int)(((o->a[1] % ET_NTYPES) + ET_NTYPES) % ET_NTYPES);
  int vt = (int)(((o->a[2] % ET_NTYPES) + ET_NTYPES) % ET_NTYPES);
  if (kind == K_TABLE) { if (kt == ET_FLT || kt == ET_CKEY) kt = ET_INT; if (vt == ET_FLT || vt == ET_CKEY) vt = ET_INT; }
  if (kind == K_TREE)  { if (kt == ET_FLT || kt == ET_TOK) kt = ET_INT; if (vt == ET_FLT || vt == ET_CKEY) vt = ET_INT; }
  if (kind == K_TUPLE) kt = ET_INT;
  if (kind == K_STRING) kt = ET_STR;
  c->kind = kind; c->kt = kt; c->vt = vt;
#ifdef CELLO_NGC
  c->managed = 0;
#else
  c->managed = o->a[3] & 1;
#endif
  c->obj = new_cont(kind, kt, vt, c->managed);
  c->live = 1; c->n = 0;
  static char* sbufs[MAXC];
  if (!sbufs[c - C]) sbufs[c - C] = harness_alloc(SBUF);
  c->s = sbufs[c - C]; c->s[0] = 0;
  root_set(c);
  g_lastop = "new";
  stat_add(kind == K_TABLE ? "new.table" : kind == K_TREE ? "new.tree" : kind == K_STRING ? "new.string" : "new.seq", 1);
  if (c->managed) stat_add("new.managed", 1);
  if (kt == ET_P12 || (!is_seq(kind) && vt == ET_P12)) stat_add("new.plain_struct_elems", 1);
  check_cont(c, 1);
}

static void do_push(const Op* o) {
  Cont* c = pick(o->a[0]); if (!c || !is_seq(c->kind) || c->n >= MAXN - 2) return;
  progress(g_opidx, cont_prop(c), "push");
  long rl0 = arena_stats.reallocs;
  int64_t v;
  if (c->kind == K_TUPLE) { v = pool_new(seqval(ET_INT, o->a[1])); if (o->a[2] & 1) append(c->obj, g_pool[v]); else push(c->obj, g_pool[v]); }
  else { v = seqval(c->kt, o->a[1]); if (o->a[2] & 1) append(c->obj, MKVAL(c->kt, v)); else push(c->obj, MKVAL(c->kt, v)); }
  model_insert(c, c->n, v);
  if (c->kind == K_ARRAY && arena_stats.reallocs != rl0) stat_add("seq.array_grow", 1);
  stat_max("seq.maxlen", c->n);
  g_lastop = (o->a[2] & 1) ? "append" : "push";
  check_cont(c, 0);
}

static void do_pop(const Op* o) {
  Cont* c = pick(o->a[0]); if (!c || !is_seq(c->kind) || c->n == 0) return;
  progress(g_opidx, cont_prop(c), "pop");
  long rl0 = arena_stats.reallocs;
  pop(c->obj);
  if (c->kind == K_ARRAY && arena_stats.reallocs != rl0) stat_add("seq.array_shrink", 1);
  model_remove(c, c->n - 1);
  g_lastop = "pop";
  check_cont(c, 0);
}

static void do_push_at(const Op* o) {
  Cont* c = pick(o->a[0]); if (!c || !is_seq(c->kind) || c->n >= MAXN - 2) return;
  progress(g_opidx, cont_prop(c), "push_at");
  int n = c->n, i;
  if (n == 0) { if (c->kind == K_TUPLE) return; i = 0; }
  else {
    i = norm_index(o->a[2], n);
    if (c->kind == K_ARRAY && (o->a[2] % 5) == 4) i = n;      /* Array accepts i == len */
  }
  int64_t v; var x;
  if (c->kind == K_TUPLE) { v = pool_new(seqval(ET_INT, o->a[1])); x = g_pool[v]; }
  else { v = seqval(c->kt, o->a[1]); x = MKVAL(c->kt, v); }
  static int64_t old[MAXN], now[MAXN];
  memcpy(old, c->k, sizeof(int64_t) * (size_t)n);
  push_at(c->obj, x, $I(i));
  g_lastop = "push_at";
  if ((int)len(c->obj) != n + 1) VIOL(c, "len-mismatch", "len=%zu after push_at on %d elements", len(c->obj), n);
  c->n = n + 1;
  int m = seq_readback(c, now, MAXN);
  /* weak, always: x inserted exactly once, the others keep their relative order */
  int at = -1;
  for (int q = 0; q < m && at < 0; q++) {
    if (!(c->kind == K_TUPLE ? now[q] == v : veq(c->kt, now[q], v))) continue;
    int ok = 1;
    for (int p = 0; p < n && ok; p++) if (now[p < q ? p : p + 1] != old[p]) ok = 0;
    if (ok) at = q;
  }
  if (at < 0) VIOL(c, "push_at-scrambled", "after push_at(%d) the sequence is not the old one plus the new element", i);
  if (i >= 0) {
    /* strict for non-negative in-range positions: x sits at position i */
    int ok = (c->kind == K_TUPLE ? now[i] == v : veq(c->kt, now[i], v));
    for (int p = 0; p < n && ok; p++) if (now[p < i ? p : p + 1] != old[p]) ok = 0;
    if (!ok) VIOL(c, "push_at-wrong-position", "push_at(%d) did not insert before position %d", i, i);
  }
  memcpy(c->k, now, sizeof(int64_t) * (size_t)m);
  if (i < 0) stat_add("seq.neg_push_at", 1);
  check_cont(c, 0);
}

static void do_pop_at(const Op* o) {
  Cont* c = pick(o->a[0]); if (!c || !is_seq(c->kind) || c->n == 0) return;
  progress(g_opidx, cont_prop(c), "pop_at");
  int i = norm_index(o->a[1], c->n);
  long rl0 = arena_stats.reallocs;
  pop_at(c->obj, $I(i));
  if (c->kind == K_ARRAY && arena_stats.reallocs != rl0) stat_add("seq.array_shrink", 1);
  model_remove(c, pos_index(i, c->n));
  g_lastop = "pop_at";
  if (i < 0) stat_add("seq.neg_pop_at", 1);
  check_cont(c, 0);
}

/* a String element / value edited in place through the pointer get() returns: the container stores Strings by value, so
 * this is an ordinary in-contract use; the edits are chosen so that the result is again a pool string */
static int str_index(const char* t) { for (int j = 0; j < NSTR; j++) if (!strcmp(g_strpool[j], t)) return j; return -1; }
static void do_elemcat(const Op* o) {
  Cont* c = pick(o->a[0]); if (!c || c->n == 0) return;
  int seq = (c->kind == K_ARRAY || c->kind == K_LIST) && c->kt == ET_STR;
  int map = (c->kind == K_TABLE || c->kind == K_TREE) && c->vt == ET_STR;
  if (!seq && !map) return;
  static const char* TR_[][2] = { { "", "a" }, { "", "b" }, { "a", "b" }, { "a", "a" }, { "a", "\xff" }, { "ab", "c" }, { "b", "a" }, { "aa", "a" }, { "hello", " world" } };
  progress(g_opidx, cont_prop(c), "elemcat");
  g_lastop = "elemcat";
  for (int t = 0; t < c->n; t++) {
    int i = (int)((((o->a[1] + t) % c->n) + c->n) % c->n);
    int64_t* slot = seq ? &c->k[i] : &c->v[i];
    const char* cur = strval(*slot);
    for (int r = 0; r < 9; r++) {
      int rr = (int)((r + (o->a[1] >> 8)) % 9); if (rr < 0) rr += 9;
      if (strcmp(cur, TR_[rr][0]) != 0) continue;
      char res[64]; snprintf(res, sizeof res, "%s%s", cur, TR_[rr][1]);
      int ni = str_index(res); if (ni < 0) continue;
      var e = seq ? get(c->obj, $I(i)) : get(c->obj, MKVAL(c->kt, c->k[i]));
      if (o->a[1] & 1) append(e, $S((char*)TR_[rr][1])); else concat(e, $S((char*)TR_[rr][1]));
      *slot = ni;
      stat_add("elem.string_edited_in_place", 1);
      check_cont(c, 0);
      return;
    }
  }
}

static void do_set(const Op* o) {
  Cont* c = pick(o->a[0]); if (!c || c->kind == K_STRING) return;
  progress(g_opidx, cont_prop(c), "set");
  g_lastop = "set";
  if (is_seq(c->kind)) {
    if (c->n == 0) return;
    int i = norm_index(o->a[1], c->n);
    int64_t v;
    if (c->kind == K_TUPLE) { v = pool_new(seqval(ET_INT, o->a[2])); set(c->obj, $I(i), g_pool[v]); }
    else { v = seqval(c->kt, o->a[2]); set(c->obj, $I(i), MKVAL(c->kt, v)); }
    c->k[pos_index(i, c->n)] = v;
    if (i < 0) stat_add("seq.neg_set", 1);
  } else {
    int64_t kv = keyval(c->kind, c->kt, o->a[1]);
    int64_t vv = seqval(c->vt, o->a[2]);
    int mi = map_find(c, kv);
    if (mi < 0 && c->n >= MAXN - 2) return;
    if (mi >= 0 && c->kind == K_TABLE && table_key_displaced(c, kv)) stat_add("table.update_displaced", 1);
    if ((o->a[3] & 2) && c->n > 0) {
      /* arguments that point into the container itself: the keys handed out by its own iteration */
      int cnt = 0;
      foreach (k in c->obj) { set(c->obj, k, MKVAL(c->vt, vv)); if (++cnt > c->n + 2) break; }
      for (int i = 0; i < c->n; i++) c->v[i] = vv;
      stat_add("map.update_through_iteration", 1); g_lastop = "set-all-through-iteration";
      check_cont(c, 0);
      return;
    }
    if ((o->a[3] & 1) && c->n > 0) {
      /* ... and a value that is stored in the same map (the insertion may rehash while the argument is still being read) */
      int j = (int)(((o->a[2] % c->n) + c->n) % c->n);
      vv = c->v[j];
      var inside = get(c->obj, MKVAL(c->kt, c->k[j]));
      set(c->obj, MKVAL(c->kt, kv), inside);
      stat_add("map.value_argument_from_same_map", 1);
    } else
    set(c->obj, MKVAL(c->kt, kv), MKVAL(c->vt, vv));
    if (mi >= 0) { c->v[mi] = vv; stat_add("map.update", 1); g_lastop = "set-existing"; }
    else { c->k[c->n] = kv; c->v[c->n] = vv; c->n++; g_lastop = "set-fresh"; }
  }
  check_cont(c, 0);
}

static void do_get(const Op* o) {
  Cont* c = pick(o->a[0]); if (!c || c->kind == K_STRING) return;
  progress(g_opidx, cont_prop(c), "get");
  g_lastop = "get";
  if (is_seq(c->kind)) {
    if (c->n == 0) return;
    int i = norm_index(o->a[1], c->n);
    var p = get(c->obj, $I(i));
    int pi = pos_index(i, c->n);
    if (c->kind == K_TUPLE ? (p isnt g_pool[c->k[pi]]) : !elem_matches(c->kt, p, c->k[pi]))
      VIOL(c, "elem-mismatch", "get(%d) differs from model", i);
    if (i < 0) stat_add("seq.neg_get", 1);
  } else {
    int64_t kv = keyval(c->kind, c->kt, o->a[1]);
    int mi = map_find(c, kv);
    if (mi < 0 && g_transcript) return;        /* in-contract programs only */
    var volatile ex = NULL; var volatile got = NULL;
    try { got = get(c->obj, MKVAL(c->kt, kv)); } catch (e) { ex = e; }
    if (mi >= 0) {
      if (ex) VIOL(c, "get-raised", "get of a bound key raised %s", exc_name(ex));
      if (!elem_matches(c->vt, got, c->v[mi])) VIOL(c, "value-mismatch", "get differs from model");
    } else {
      if (ex isnt KeyError) VIOL(c, "absent-get-no-keyerror", "get of an absent key raised %s instead of KeyError", exc_name(ex));
      stat_add("map.absent_get", 1);
      check_cont(c, 0);
    }
  }
}

static void do_rem(const Op* o) {
  Cont* c = pick(o->a[0]); if (!c || c->kind == K_STRING) return;
  progress(g_opidx, cont_prop(c), "rem");
  g_lastop = "rem";
  if (is_seq(c->kind)) {
    if (c->n == 0) return;
    /* remove a present value: the first element equal to it must go */
    int j = (int)(((o->a[1] % c->n) + c->n) % c->n);
    int64_t v = elemv(c, j); int et = elem_et(c);
    int first = 0; while (!veq(et, elemv(c, first), v)) first++;
    rem(c->obj, MKVAL(et, v));
    model_remove(c, first);
    if (first != j) stat_add("seq.rem_duplicate", 1);
  } else {
    int64_t kv = keyval(c->kind, c->kt, o->a[1]);
    int mi = map_find(c, kv);
    /* bias towards present keys */
    if (mi < 0 && c->n && (o->a[1] & 1)) { mi = (int)(((o->a[1] / 2 % c->n) + c->n) % c->n); kv = c->k[mi]; }
    if (mi < 0 && g_transcript) return;        /* in-contract programs only */
    var volatile ex = NULL;
    if (mi >= 0 && c->kind == K_TREE) tree_classify_rem(c, kv);
    try { rem(c->obj, MKVAL(c->kt, kv)); } catch (e) { ex = e; }
    if (mi >= 0) {
      if (ex) VIOL(c, "rem-raised", "rem of a bound key raised %s", exc_name(ex));
      map_model_remove(c, mi);
    } else {
      if (ex isnt KeyError) VIOL(c, "absent-rem-no-keyerror", "rem of an absent key raised %s instead of KeyError", exc_name(ex));
      stat_add("map.absent_rem", 1);
      g_lastop = "rem-absent";
    }
  }
  check_cont(c, 0);
}

static void do_mem(const Op* o) {
  Cont* c = pick(o->a[0]); if (!c || c->kind == K_STRING) return;
  progress(g_opidx, cont_prop(c), "mem");
  if (is_seq(c->kind)) {
    int et = elem_et(c);
    int64_t v = seqval(et, o->a[1]);
    int want = 0; for (int i = 0; i < c->n; i++) if (veq(et, elemv(c, i), v)) want = 1;
    bool m = mem(c->obj, MKVAL(et, v));
    TR("mem %d", (int)m);
    if ((int)m != want) VIOL(c, "mem-mismatch", "mem=%d model=%d", (int)m, want);
  } else {
    int64_t kv = keyval(c->kind, c->kt, o->a[1]);
    bool m = mem(c->obj, MKVAL(c->kt, kv));
    TR("mem %d", (int)m);
    if ((int)m != (map_find(c, kv) >= 0)) VIOL(c, "mem-mismatch", "mem=%d model=%d", (int)m, map_find(c, kv) >= 0);
  }
}

static void do_concat(const Op* o) {
  Cont* c = pick(o->a[0]); if (!c || !is_seq(c->kind)) return;
  progress(g_opidx, cont_prop(c), "concat");
  g_lastop = "concat";
  if (c->kind == K_TUPLE) {
    int k = (int)(((o->a[1] % 4) + 4) % 4);
    if (c->n + k >= MAXN - 2) return;
    int64_t id[3];
    for (int i = 0; i < k; i++) id[i] = pool_new(seqval(ET_INT, o->a[1] + i));
    if (k == 0) concat(c->obj, tuple());
    else if (k == 1) concat(c->obj, tuple(g_pool[id[0]]));
    else if (k == 2) concat(c->obj, tuple(g_pool[id[0]], g_pool[id[1]]));
    else concat(c->obj, tuple(g_pool[id[0]], g_pool[id[1]], g_pool[id[2]]));
    for (int i = 0; i < k; i++) model_insert(c, c->n, id[i]);
  } else {
    Cont* s = pick_other(o->a[1], c);
    if (!s || !is_seq(s->kind) || c->n + s->n >= MAXN - 2) return;
    if (!seq_elem_ok_types(c->kt, elem_et(s))) return;
    concat(c->obj, s->obj);
    for (int i = 0; i < s->n; i++) model_insert(c, c->n, elemv(s, i));
    stat_add("seq.concat_cross", s->kind != c->kind);
  }
  check_cont(c, 0);
}

static void do_resize(const Op* o) {
  Cont* c = pick(o->a[0]); if (!c) return;
  progress(g_opidx, cont_prop(c), "resize");
  g_lastop = "resize";
  uint64_t r = (uint64_t)(o->a[1] < 0 ? -o->a[1] : o->a[1]);
  if (c->kind == K_STRING) {
    size_t L = strlen(c->s);
    size_t n = (r % 3 == 0) ? 0 : (r % 3 == 1) ? (L ? (r / 3) % (L + 1) : 0) : L + (r / 3) % 40;
    resize(c->obj, n);
    if (n < L) { c->s[n] = 0; stat_add("str.shrink", 1); c->shrink++; }
    else if (n > L) { stat_add("str.reserve", 1); if (c->shrink) stat_add("str.grow_after_shrink", 1); }
    if (n == 0) g_lastop = "resize0";
  } else if (c->kind == K_TREE) {
    resize(c->obj, 0); c->n = 0; g_lastop = "resize0";
  } else if (c->kind == K_TABLE) {
    if (r % 3 == 0) { resize(c->obj, 0); c->n = 0; g_lastop = "resize0"; stat_add("table.resize0", 1); }
    else { size_t n = (size_t)c->n + (r / 3) % 120; if (n == 0) n = 1; resize(c->obj, n); g_lastop = "reserve"; stat_add("table.reserve", 1); }
  } else if (c->kind == K_TUPLE) {
    if (c->n == 0) return;
    size_t n = (r % c->n);
    resize(c->obj, n); c->n = (int)n;
  } else {
    size_t n;
    int pad_ok = (c->kt == ET_INT || c->kt == ET_FLT || c->kt == ET_CKEY);   /* zero padding of a P12 list is not value 0 in model space */
    if (r % 4 == 0) n = 0;
    else if (r % 4 == 1 || (c->kind == K_LIST && !pad_ok)) n = c->n ? (r / 4) % ((size_t)c->n + 1) : 0;
    else n = (size_t)c->n + 1 + (r / 4) % 24;
    if ((int)n >= MAXN - 2) return;
    int old = c->n;
    resize(c->obj, n);
    if ((int)n <= old) c->n = (int)n;
    else {
      /* growing: reserve-only and zero padding are both accepted */
      size_t L = len(c->obj);
      if ((int)L == old) { stat_add("seq.resize_reserve", 1); }
      else if (L == n) { for (int i = old; i < (int)n; i++) c->k[i] = 0; c->n = (int)n; stat_add("seq.resize_pad", 1); }
      else VIOL(c, "len-mismatch", "resize(%zu) on %d elements gives len %zu", n, old, L);
    }
    if (n == 0) g_lastop = "resize0";
  }
  check_cont(c, 1);
}

static int cmp_for_sort(const void* a, const void* b, void* ud) {
  Cont* c = ud; int et = elem_et(c);
  int64_t x = *(const int64_t*)a, y = *(const int64_t*)b;
  if (c->kind == K_TUPLE) { x = pool_val(x); y = pool_val(y); }
  return vcmp(et, x, y);
}

static void do_sort(const Op* o) {
  Cont* c = pick(o->a[0]); if (!c || (c->kind != K_ARRAY && c->kind != K_TUPLE)) return;
  progress(g_opidx, cont_prop(c), "sort");
  g_lastop = "sort";
  int desc = (o->a[1] & 1);
  static int64_t before[MAXN], now[MAXN];
  int n = c->n;
  memcpy(before, c->k, sizeof(int64_t) * (size_t)n);
  if (desc) sort_by(c->obj, sort_gt); else sort(c->obj);
  if ((int)len(c->obj) != n) VIOL(c, "len-mismatch", "sort changed len %d -> %zu", n, len(c->obj));
  int m = seq_readback(c, now, MAXN);
  /* ordered by the comparison function */
  int et = elem_et(c);
  for (int i = 0; i + 1 < m; i++) {
    int64_t x = c->kind == K_TUPLE ? pool_val(now[i]) : now[i], y = c->kind == K_TUPLE ? pool_val(now[i + 1]) : now[i + 1];
    int d = vcmp(et, x, y);
    if (desc ? d < 0 : d > 0) VIOL(c, "sort-not-ordered", "positions %d,%d out of order after sort", i, i + 1);
  }
  /* permutation of the previous contents */
  static int64_t s1[MAXN], s2[MAXN];
  memcpy(s1, before, sizeof(int64_t) * (size_t)n); memcpy(s2, now, sizeof(int64_t) * (size_t)m);
  if (c->kind == K_TUPLE) {
    /* identity multiset */
    for (int i = 0; i < n; i++) for (int j = i + 1; j < n; j++) { if (s1[j] < s1[i]) { int64_t t = s1[i]; s1[i] = s1[j]; s1[j] = t; } if (s2[j] < s2[i]) { int64_t t = s2[i]; s2[i] = s2[j]; s2[j] = t; } }
  } else {
    qsort_r(s1, (size_t)n, sizeof(int64_t), cmp_for_sort, c);
    qsort_r(s2, (size_t)m, sizeof(int64_t), cmp_for_sort, c);
  }
  for (int i = 0; i < n; i++) if (c->kind == K_TUPLE ? s1[i] != s2[i] : !veq(et, s1[i], s2[i]))
    VIOL(c, "sort-not-permutation", "sort changed the multiset of elements");
  memcpy(c->k, now, sizeof(int64_t) * (size_t)m);
  stat_add("seq.sort", 1);
  int dup = 0; for (int i = 0; i + 1 < m; i++) if (vcmp(et, c->kind == K_TUPLE ? pool_val(now[i]) : now[i], c->kind == K_TUPLE ? pool_val(now[i+1]) : now[i+1]) == 0) dup = 1;
  if (dup) stat_add("seq.sort_with_duplicates", 1);
  check_cont(c, 0);
}

static void check_pair_equal(Cont* a, var x, var y, const char* how) {
  /* C10: two instances the models say are equal */
  char cls[96];
  if (!eq(x, y) || !eq(y, x)) { snprintf(cls, sizeof cls, "C10:not-eq:%s:%s", KNAME[a->kind], how); viol("C10", cls, "%s: eq is false for equal contents (%d elements)", how, a->n); }
  if (hash(x) != hash(y)) { snprintf(cls, sizeof cls, "C10:hash-differs:%s:%s", KNAME[a->kind], how); viol("C10", cls, "%s: equal contents hash differently", how); }
  stat_add("c10.pairs", 1);
}

static int assign_compatible(Cont* d, Cont* s) {
  if (d->kind == K_STRING || s->kind == K_STRING) return d->kind == s->kind;
  if (d->kind == K_TUPLE || s->kind == K_TUPLE) return d->kind == s->kind;
  if (is_map(d->kind) != is_map(s->kind)) return 0;
  return 1;
}

static void adopt_model(Cont* d, Cont* s) {
  d->n = s->n;
  memcpy(d->k, s->k, sizeof(int64_t) * (size_t)s->n);
  memcpy(d->v, s->v, sizeof(int64_t) * (size_t)s->n);
  if (s->kind == K_STRING) strcpy(d->s, s->s);
  if (!(d->kind == K_TUPLE)) { d->kt = s->kt; d->vt = s->vt; }
}

static void do_assign(const Op* o) {
  Cont* d = pick(o->a[0]); if (!d) return;
  Cont* s = pick_other(o->a[1], d); if (!s || !assign_compatible(d, s)) return;
  if (d->kind == K_TREE && s->kind == K_TABLE && s->kt == ET_TOK) return;   /* Tree keys need an order Tok has, fine, but keep key pools separate */
  if (is_map(d->kind) && d->kind != s->kind && s->kt == ET_INT) return;     /* key pools differ between Table and Tree */
  progress(g_opidx, "C05", "assign");
  g_lastop = d->kind == s->kind ? "assign-same-kind" : "assign-cross-kind";
  assign(d->obj, s->obj);
  adopt_model(d, s);
  if (d->kind != s->kind) stat_add("assign.cross_kind", 1);
  stat_add("assign", 1);
  if (g_focus == 10) { progress(g_opidx, "C10", "assign"); if (d->kind == s->kind || is_seq(d->kind)) check_pair_equal(d, d->obj, s->obj, d->kind == s->kind ? "assign" : "assign-cross-kind"); }
  progress(g_opidx, cont_prop(d), "assign");
  check_cont(d, 1); check_cont(s, 1);
  progress(g_opidx, "C10", "assign");
  if (g_focus != 10 && (d->kind == s->kind || is_seq(d->kind))) check_pair_equal(d, d->obj, s->obj, d->kind == s->kind ? "assign" : "assign-cross-kind");
}

static void do_copy(const Op* o) {
  Cont* s = pick(o->a[0]); if (!s) return;
  Cont* d = free_slot(); if (!d) return;
  progress(g_opidx, "C05", "copy");
  g_lastop = "copy";
  static char* sb[MAXC];
  memset(d, 0, sizeof *d);
  if (!sb[d - C]) sb[d - C] = harness_alloc(SBUF);
  d->s = sb[d - C]; d->s[0] = 0;
  d->kind = s->kind; d->kt = s->kt; d->vt = s->vt;
#ifdef CELLO_NGC
  d->managed = 0;
#else
  d->managed = 1;
#endif
  d->obj = copy(s->obj);
  root_set(d);
  d->live = 1;
  adopt_model(d, s);
  stat_add("copy", 1);
  if (type_of(d->obj) isnt type_of(s->obj)) viol("C19", "C19:wrong-type:copy", "copy of %s has another type", KNAME[s->kind]);
  if (g_focus == 10) { progress(g_opidx, "C10", "copy"); check_pair_equal(d, d->obj, s->obj, "copy"); }
  progress(g_opidx, cont_prop(d), "copy");
  check_cont(d, 1); check_cont(s, 1);
  progress(g_opidx, "C10", "copy");
  if (g_focus != 10) check_pair_equal(d, d->obj, s->obj, "copy");
}

static void do_twin(const Op* o) {
  Cont* c = pick(o->a[0]); if (!c) return;
  progress(g_opidx, "C10", "twin");
  int var_ = (int)(((o->a[1] % 4) + 4) % 4);
  g_lastop = "twin";
  var t = NULL; const char* how = "twin";
  if (c->kind == K_STRING) {
    t = new_raw(String);
    size_t L = strlen(c->s), h = L / 2;
    char b[SBUF];
    memcpy(b, c->s, h); b[h] = 0; append(t, $S(b));
    if (var_ & 1) { append(t, $S("junk")); resize(t, h); }
    concat(t, $S(c->s + h));
    how = "twin-string";
  } else if (is_seq(c->kind) && c->kind != K_TUPLE) {
    int other = (var_ & 1);
    int kind = other ? (c->kind == K_ARRAY ? K_LIST : K_ARRAY) : c->kind;
    t = new_cont(kind, c->kt, c->vt, 0);
    if (var_ & 2) { for (int i = c->n - 1; i >= 0; i--) push_at(t, MKVAL(c->kt, altv(c->kt, c->k[i])), $I(0)); }
    else {
      if (kind == K_ARRAY) resize(t, (size_t)c->n + 7);
      for (int i = 0; i < c->n; i++) push(t, MKVAL(c->kt, altv(c->kt, c->k[i])));
      push(t, MKVAL(c->kt, seqval(c->kt, 5))); pop(t);
    }
    how = other ? "twin-other-kind" : "twin-same-kind";
  } else if (c->kind == K_TUPLE) {
    t = new_raw(Tuple);
    for (int i = 0; i < c->n; i++) push(t, g_pool[pool_new(pool_val(c->k[i]))]);
    how = "twin-tuple";
  } else {
    t = new_cont(c->kind, c->kt, c->vt, 0);
    if (c->kind == K_TABLE && (var_ & 2)) resize(t, (size_t)c->n + 30);
    if (var_ & 1) {
      /* extra keys inserted first and removed afterwards */
      for (int x = 0; x < 5; x++) { int64_t kv = keyval(c->kind, c->kt, 7 * x + 1); set(t, MKVAL(c->kt, kv), MKVAL(c->vt, seqval(c->vt, x))); }
    }
    for (int i = c->n - 1; i >= 0; i--) set(t, MKVAL(c->kt, c->k[i]), MKVAL(c->vt, c->v[i]));
    if (var_ & 1) {
      for (int x = 0; x < 5; x++) { int64_t kv = keyval(c->kind, c->kt, 7 * x + 1); if (map_find(c, kv) < 0) rem(t, MKVAL(c->kt, kv)); }
    }
    how = c->kind == K_TABLE ? ((var_ & 2) ? "twin-table-reserved" : "twin-table") : "twin-tree";
  }
  stat_add("c10.twins", 1);
  check_pair_equal(c, c->obj, t, how);
  progress(g_opidx, "C05", "twin-del");
  del_raw(t);
}

static void do_swap(const Op* o) {
  Cont* a = pick(o->a[0]); if (!a) return;
  Cont* b = pick_other(o->a[1], a); if (!b || a->kind != b->kind) return;
  progress(g_opidx, "C10", "swap");
  g_lastop = "swap";
  swap(a->obj, b->obj);
  static Cont tmp;
  tmp = *a;
  a->n = b->n; a->kt = b->kt; a->vt = b->vt; memcpy(a->k, b->k, sizeof a->k); memcpy(a->v, b->v, sizeof a->v);
  b->n = tmp.n; b->kt = tmp.kt; b->vt = tmp.vt; memcpy(b->k, tmp.k, sizeof b->k); memcpy(b->v, tmp.v, sizeof b->v);
  if (a->kind == K_STRING) { static char sw[SBUF]; strcpy(sw, a->s); strcpy(a->s, b->s); strcpy(b->s, sw); }
  stat_add("c10.swaps", 1);
  /* the two values must have been exchanged: checked against the swapped models */
  const char* save = tok_prop;
  check_cont(a, 1); check_cont(b, 1);
  tok_prop = save;
}

/* ---------------------------------------------------------- string ops */
static void do_sassign(const Op* o) {
  Cont* c = pick(o->a[0]); if (!c || c->kind != K_STRING) return;
  progress(g_opidx, "C16", "s_assign");
  if (((o->a[2] % 9) + 9) % 9 == 0) {
    /* assigned its own characters: the String itself, or a stack String that looks at its buffer */
    if (o->a[2] & 1) assign(c->obj, c->obj); else assign(c->obj, $S(c_str(c->obj)));
    g_lastop = "assign-self";
    stat_add("str.assigned_itself", 1);
    check_cont(c, 1);
    return;
  }
  char b[SBUF]; const char* x = sop(c, o->a[1], o->a[2], b, sizeof b);
  char keep[SBUF]; snprintf(keep, sizeof keep, "%s", x);
  assign(c->obj, $S(keep));
  strcpy(c->s, keep);
  g_lastop = "assign";
  check_cont(c, 1);
}
static void do_sconcat(const Op* o) {
  Cont* c = pick(o->a[0]); if (!c || c->kind != K_STRING) return;
  progress(g_opidx, "C16", "s_concat");
  char b[SBUF]; const char* x = sop(c, o->a[1], o->a[2], b, sizeof b);
  if (strlen(c->s) + strlen(x) >= SBUF - 1) return;
  char keep[SBUF]; snprintf(keep, sizeof keep, "%s", x);
  if (o->a[3] & 1) append(c->obj, $S(keep)); else concat(c->obj, $S(keep));
  if (c->shrink) stat_add("str.grow_after_shrink", 1);
  strcat(c->s, keep);
  g_lastop = "concat";
  check_cont(c, 1);
}
static void do_srem(const Op* o) {
  Cont* c = pick(o->a[0]); if (!c || c->kind != K_STRING) return;
  progress(g_opidx, "C16", "s_rem");
  char b[SBUF]; const char* x = sop(c, o->a[1], o->a[2], b, sizeof b);
  char keep[SBUF]; snprintf(keep, sizeof keep, "%s", x);
  char* at = strstr(c->s, keep);
  size_t L = strlen(c->s), xl = strlen(keep);
  g_lastop = !at ? "rem-absent" : xl == 0 ? "rem-empty" : at == c->s ? "rem-start" : (at + xl == c->s + L) ? "rem-end" : "rem-middle";
  var volatile ex = NULL;
  try { rem(c->obj, $S(keep)); } catch (e) { ex = e; }
  if (at) {
    if (ex) VIOL(c, "rem-raised", "rem of a present substring raised %s", exc_name(ex));
    memmove(at, at + xl, strlen(at + xl) + 1);
  } else {
    /* absent: content unchanged; raising instead is accepted */
    stat_add("str.rem_absent", 1);
  }
  stat_add(g_lastop[4] == 'm' ? "str.rem_middle" : "str.rem_other", 1);
  check_cont(c, 1);
}
static void do_smem(const Op* o) {
  Cont* c = pick(o->a[0]); if (!c || c->kind != K_STRING) return;
  progress(g_opidx, "C16", "s_mem");
  char b[SBUF]; const char* x = sop(c, o->a[1], o->a[2], b, sizeof b);
  bool m = mem(c->obj, $S((char*)x));
  if (m != (strstr(c->s, x) != NULL)) VIOL(c, "mem-mismatch", "mem disagrees with strstr");
  TR("smem %d", (int)m);
}
static void do_sprint(const Op* o) {
  Cont* c = pick(o->a[0]); if (!c || c->kind != K_STRING) return;
  progress(g_opidx, "C16", "s_print");
  size_t L = strlen(c->s);
  int pos = (int)(((o->a[1] % (int64_t)(L + 1)) + (int64_t)(L + 1)) % (int64_t)(L + 1));
  int f = (int)(((o->a[2] % 12) + 12) % 12);
  int64_t x = o->a[3];
  char out[512]; int r = 0;
  switch (f) {
    case 0: snprintf(out, sizeof out, "%li", (long)x); r = print_to(c->obj, pos, "%li", $I(x)); break;
    case 1: snprintf(out, sizeof out, "<%s>", strval(x)); r = print_to(c->obj, pos, "<%s>", $S((char*)strval(x))); break;
    case 2: snprintf(out, sizeof out, "%li", (long)x); r = print_to(c->obj, pos, "%$", $I(x)); break;
    case 3: if (x & 1) { snprintf(out, sizeof out, "lit%%"); r = print_to(c->obj, pos, "lit%%"); }
            else { snprintf(out, sizeof out, "%li%% of %li%%%%!", (long)x, (long)(x / 2)); r = print_to(c->obj, pos, "%li%% of %li%%%%!", $I(x), $I(x / 2)); } break;
    case 4: snprintf(out, sizeof out, "%5.2f|", fltval(normv(ET_FLT, x))); r = print_to(c->obj, pos, "%5.2f|", $F(fltval(normv(ET_FLT, x)))); break;
    case 5: snprintf(out, sizeof out, "%li,%s", (long)x, strval(x + 1)); r = print_to(c->obj, pos, "%li,%s", $I(x), $S((char*)strval(x + 1))); break;
    case 6: { /* one long %s piece: lengths around 16/32/64/128/256 and in between */
      static const int L[] = { 15, 16, 17, 31, 32, 33, 63, 64, 65, 127, 128, 129, 200, 255, 256, 257 };
      int l = L[((x % 16) + 16) % 16]; char piece[300];
      for (int i = 0; i < l; i++) piece[i] = (char)('a' + (i + (int)(x & 7)) % 26); piece[l] = 0;
      snprintf(out, sizeof out, "%s", piece); r = print_to(c->obj, pos, "%s", $S(piece)); break; }
    case 8: { /* %$ of objects other than Int: their Show instances must honour the position protocol too */
      static var* TY[] = { &Int, &Float, &String, &Array, &KeyError, &Table, &IndexOutOfBoundsError, &Type };
      static const char* TN[] = { "Int", "Float", "String", "Array", "KeyError", "Table", "IndexOutOfBoundsError", "Type" };
      int k = (int)(((x % 8) + 8) % 8);
      snprintf(out, sizeof out, "[%s]", TN[k]); r = print_to(c->obj, pos, "[%$]", *TY[k]); stat_add("str.print_show_type", 1); break; }
    case 9: snprintf(out, sizeof out, "%f;", fltval(normv(ET_FLT, x))); r = print_to(c->obj, pos, "%$;", $F(fltval(normv(ET_FLT, x)))); break;
    case 10: { const char* sv = strval(x); if (strpbrk(sv, "\\\"'?")) sv = "plain";
      snprintf(out, sizeof out, "=\"%s\"", sv); r = print_to(c->obj, pos, "=%$", $S((char*)sv)); stat_add("str.print_show_string", 1); break; }
    case 11: { /* %$ of container / reference / function objects: whatever their Show prints at position 0 of a fresh String is
                * what must appear, between the surrounding literals, at any position of this one */
      var ob; int k = (int)(((x % 7) + 7) % 7);
      var arr = new_raw(Array, Int, $I(1), $I(x)); var tbl = new_raw(Table, Int, Int, $I(2), $I(x)); var tre = new_raw(Tree, String, Int, $S("k"), $I(x));
      var lst = new_raw(List, Float, $F(0.5));
      var tup = tuple($I(x), $S("t")); var rf = $(Ref, arr); var rg = range($I(3));    /* stack objects of this block */
      switch (k) { case 0: ob = arr; break; case 1: ob = tbl; break; case 2: ob = tre; break; case 3: ob = lst; break;
                   case 4: ob = tup; break; case 5: ob = rf; break; default: ob = rg; break; }
      var tmp = new_raw(String, $S(""));
      int r0 = print_to(tmp, 0, "%$", ob);
      if (r0 != (int)strlen(c_str(tmp))) VIOL(c, "print-position", "print_to of a %s at position 0 returned %d, wrote %zu characters", c_str(type_of(ob)), r0, strlen(c_str(tmp)));
      snprintf(out, sizeof out, "<%.400s>", c_str(tmp));
      r = print_to(c->obj, pos, "<%$>", ob);
      del_raw(tmp); del_raw(arr); del_raw(tbl); del_raw(tre); del_raw(lst);
      stat_add("str.print_show_object", 1); break; }
    default: { /* a wide numeric field */
      static const int W[] = { 20, 31, 32, 33, 63, 64, 65, 100 };
      int w = W[((x % 8) + 8) % 8]; char fmt[16]; snprintf(fmt, sizeof fmt, "%%%dli", w);
      snprintf(out, sizeof out, fmt, (long)x); r = print_to(c->obj, pos, fmt, $I(x)); break; }
  }
  if (pos + strlen(out) >= SBUF - 1) return;
  strcpy(c->s + pos, out);
  g_lastop = "print_to";
  if (r != pos + (int)strlen(out)) VIOL(c, "print-position", "print_to returned %d, expected %d", r, pos + (int)strlen(out));
  stat_add("str.print_to", 1);
  check_cont(c, 1);
}

/* ------------------------------------------------ plain values (C10) */
struct P12 { int32_t a, b, c; };
struct P3 { unsigned char a, b, c; };
struct P20 { int64_t a, b; int32_t c; };
static var P12 = Cello(P12);
static var P3 = Cello(P3);
struct P76 { int32_t w[19]; };
static var P76 = Cello(P76);
static var P20 = Cello(P20);

static void do_swapv(const Op* o) {
  progress(g_opidx, "C10", "swapv");
  int t = (int)(((o->a[0] % 8) + 8) % 8);
  var T = t == 0 ? P12 : t == 1 ? P3 : t == 2 ? P20 : t == 3 ? Int : t == 4 ? Float : t == 5 ? String : t == 6 ? P76 : Ref;
  size_t n = t == 0 ? sizeof(struct P12) : t == 1 ? sizeof(struct P3) : t == 2 ? sizeof(struct P20) : t == 6 ? sizeof(struct P76) : 8;
  var x, y;
  char cls[96];
  static char sb[2][400];
  if (t <= 2 || t == 6) {
    x = new_raw_with(T, tuple()); y = new_raw_with(T, tuple());
    unsigned char* px = x; unsigned char* py = y;
    for (size_t i = 0; i < n; i++) { px[i] = (unsigned char)(o->a[1] * 31 + (int64_t)i * 7 + 1); py[i] = (unsigned char)(o->a[2] * 17 + (int64_t)i * 13 + 2); }
  } else if (t == 7) {
    /* reference values: the referents are static objects; looked at through their Pointer instance first, as programs do */
    static var* RT_[] = { &Int, &Float, &String, &Array, &Table, &Tree };
    x = new_raw(Ref, *RT_[(int)(((o->a[1] % 6) + 6) % 6)]); y = new_raw(Ref, *RT_[(int)((((o->a[2] + 1) % 6) + 6) % 6)]);
    if (deref(x) isnt *RT_[(int)(((o->a[1] % 6) + 6) % 6)]) viol("C10", "C10:ref-deref", "deref of a fresh Ref gives another object");
    (void)deref(y);
    stat_add("c10.ref_values", 1);
  } else if (t == 3) { x = new_raw(Int, $I(o->a[1])); y = new_raw(Int, $I(o->a[2] + 1)); }
  else if (t == 4) { x = new_raw(Float, $F(fltval(seqval(ET_FLT, o->a[1])))); y = new_raw(Float, $F((o->a[2] & 1) ? fltval(seqval(ET_FLT, o->a[2] / 2)) : fltval(normv(ET_FLT, o->a[2])) + 0.5)); }
  else if ((o->a[1] & 1) == 0) { x = new_raw(String, $S((char*)strval(o->a[1]))); y = new_raw(String, $S((char*)strval(o->a[2] + 1))); }
  else {
    /* longer strings (0..260 characters) whose characters sit at every alignment: the value is the same wherever it is */
    for (int k = 0; k < 2; k++) {
      int64_t sd = k ? o->a[2] : o->a[1]; int len = (int)(((sd / 2) % 261 + 261) % 261); char* u = sb[k] + ((sd / 600) & 7);
      for (int i = 0; i < len; i++) u[i] = (char)('!' + (sd * 7 + i * 11 + k) % 90);
      u[len] = 0;
      var h = new_raw(String, $S(u));
      if (!eq($S(u), h) || hash($S(u)) != hash(h)) viol("C10", "C10:hash-depends-on-address:String", "a %d character String hashes differently in place (offset %d) and as a heap instance", len, (int)((sd / 600) & 7));
      if (k) y = h; else x = h;
    }
    stat_add("c10.unaligned_strings", 1);
  }
  if (t <= 2 || t == 6) {
    /* the same plain values embedded in an Array (elements at header+size strides, i.e. other alignments) */
    var arr = new_raw(Array, T); push(arr, x); push(arr, y); push(arr, x);
    for (int i = 0; i < 3; i++) { var e = get(arr, $I(i)); var rf = i == 1 ? y : x;
      if (!eq(e, rf) || hash(e) != hash(rf)) { snprintf(cls, sizeof cls, "C10:hash-depends-on-address:%s", c_str(T)); viol("C10", cls, "a %s value embedded in an Array is not eq to / hashes unlike the heap instance it was assigned from", c_str(T)); } }
    del_raw(arr);
  }
  if (eq(x, y) != eq(y, x)) { snprintf(cls, sizeof cls, "C10:eq-not-symmetric:%s", c_str(T)); viol("C10", cls, "eq of two %s values depends on the argument order", c_str(T)); }
  if (eq(x, y) && hash(x) != hash(y)) { snprintf(cls, sizeof cls, "C10:eq-but-hash-differs:%s", c_str(T)); viol("C10", cls, "two %s values are eq and hash differently", c_str(T)); }
  var x0 = copy(x), y0 = copy(y);        /* copies (managed, kept on this frame) are the reference values */
  if (!eq(x0, x) || hash(x0) != hash(x)) { snprintf(cls, sizeof cls, "C10:copy-not-equal:%s", c_str(T)); viol("C10", cls, "copy of a %s value is not eq / hashes differently", c_str(T)); }
  swap(x, y);
  if (!eq(x, y0) || !eq(y, x0) || hash(x) != hash(y0) || hash(y) != hash(x0)) {
    snprintf(cls, sizeof cls, "C10:swap-not-exchanged:%s", c_str(T)); viol("C10", cls, "swap of two %s values (%zu bytes) did not exchange them", c_str(T), n); }
  assign(x, y);
  if (!eq(x, y) || hash(x) != hash(y)) { snprintf(cls, sizeof cls, "C10:assign-not-equal:%s", c_str(T)); viol("C10", cls, "assign of a %s value does not give an equal value", c_str(T)); }
  del_raw(x); del_raw(y);
  stat_add("c10.value_swaps", 1);
}

/* ---------------------------------------------------------------- views */
static var view_accept_all(var x) { return x; }
static var view_even(var x) { return (c_int(x) % 2 == 0) ? x : NULL; }   /* filter / map hand the element itself to the function */
static struct Int g_map_out;
static var view_double(var args) { static char buf[sizeof(struct Header) + sizeof(struct Int)]; struct Int* o = header_init(buf, Int, AllocStatic); o->val = (int64_t)((uint64_t)c_int(args) * 2u + 1u);   /* wraps, by definition */ (void)g_map_out; return o; }

/* iteration views over a sequence of integers: what they yield is emitted into the transcript (C18 compares it across build
 * configurations) and checked against the definition computed from the model.  In-contract parameters only. */
static void do_view(const Op* o) {
  Cont* c = pick(o->a[0]); if (!c || !is_seq(c->kind) || !int_like(elem_et(c)) || elem_et(c) == ET_TOK) return;
  progress(g_opidx, "C18", "view");
  int n = c->n, kind = (int)(((o->a[1] % 6) + 6) % 6);
  int64_t a = o->a[2], b = o->a[3];
  int cnt = 0;
  g_lastop = "view";
  switch (kind) {
    case 0: { /* slice(c, start, stop, step) with 0 <= start <= stop <= n, step >= 1 */
      int st = n ? (int)(((a % (n + 1)) + (n + 1)) % (n + 1)) : 0, sp = n ? st + (int)(((b % (n - st + 1)) + (n - st + 1)) % (n - st + 1)) : 0, step = 1 + (int)(((a / 7 % 3) + 3) % 3);
      int want = st;
      foreach (x in slice(c->obj, $I(st), $I(sp), $I(step))) {
        if (want >= sp) VIOL(c, "view-slice-too-long", "slice(%d,%d,%d) yields an item beyond stop", st, sp, step);
        if (c_int(x) != elemv(c, want)) VIOL(c, "view-slice-mismatch", "slice(%d,%d,%d) item %d differs from get(%d)", st, sp, step, cnt, want);
        TR("sl %lld", (long long)c_int(x)); want += step; cnt++;
      }
      if (want < sp) VIOL(c, "view-slice-too-short", "slice(%d,%d,%d) stopped early", st, sp, step);
      break; }
    case 1: { /* zip with a range: pairs up to the shorter */
      int m = (int)(((a % 12) + 12) % 12);
      foreach (pair in zip(c->obj, range($I(m)))) {
        var x = get(pair, $I(0)), y = get(pair, $I(1));
        if (cnt >= n || cnt >= m) VIOL(c, "view-zip-too-long", "zip yields more than the shorter input");
        if (c_int(x) != elemv(c, cnt) || c_int(y) != cnt) VIOL(c, "view-zip-mismatch", "zip item %d differs", cnt);
        TR("zp %lld %lld", (long long)c_int(x), (long long)c_int(y)); cnt++;
      }
      if (cnt != (n < m ? n : m)) VIOL(c, "view-zip-too-short", "zip yields %d of %d pairs", cnt, n < m ? n : m);
      break; }
    case 2: { /* enumerate */
      foreach (pair in enumerate(c->obj)) {
        if (cnt >= n) VIOL(c, "view-enumerate-too-long", "enumerate yields more than len");
        if (c_int(get(pair, $I(0))) != cnt || c_int(get(pair, $I(1))) != elemv(c, cnt)) VIOL(c, "view-enumerate-mismatch", "enumerate item %d differs", cnt);
        TR("en %d %lld", cnt, (long long)c_int(get(pair, $I(1)))); cnt++;
      }
      if (cnt != n) VIOL(c, "view-enumerate-too-short", "enumerate yields %d of %d", cnt, n);
      break; }
    case 3: { /* filter: the even elements, in order */
      int want = 0;
      foreach (x in filter(c->obj, $(Function, view_even))) {
        while (want < n && elemv(c, want) % 2 != 0) want++;
        if (want >= n || c_int(x) != elemv(c, want)) VIOL(c, "view-filter-mismatch", "filter item %d differs", cnt);
        TR("fl %lld", (long long)c_int(x)); want++; cnt++;
      }
      while (want < n && elemv(c, want) % 2 != 0) want++;
      if (want < n) VIOL(c, "view-filter-too-short", "filter missed an accepted element");
      break; }
    case 4: { /* map: images in order */
      foreach (x in map(c->obj, $(Function, view_double))) {
        if (cnt >= n) VIOL(c, "view-map-too-long", "map yields more than len");
        if (c_int(x) != (int64_t)((uint64_t)elemv(c, cnt) * 2u + 1u)) VIOL(c, "view-map-mismatch", "map item %d differs", cnt);
        TR("mp %lld", (long long)c_int(x)); cnt++;
      }
      if (cnt != n) VIOL(c, "view-map-too-short", "map yields %d of %d", cnt, n);
      break; }
    default: { /* range(start, stop, step) with a positive step */
      int64_t st = ((a % 20) + 20) % 20 - 5, sp = st + ((b % 25) + 25) % 25, step = 1 + ((a / 20 % 4) + 4) % 4, want = st;
      foreach (x in range($I(st), $I(sp), $I(step))) {
        if (want >= sp || c_int(x) != want) VIOL(c, "view-range-mismatch", "range(%lld,%lld,%lld) item %d differs", (long long)st, (long long)sp, (long long)step, cnt);
        TR("rg %lld", (long long)c_int(x)); want += step; cnt++;
      }
      if (want < sp) VIOL(c, "view-range-too-short", "range stopped early");
      break; }
  }
  stat_add("view.iterated", 1);
  { static const char* vk[] = { "view.slice", "view.zip", "view.enumerate", "view.filter", "view.map", "view.range" }; stat_add(vk[kind], 1); }
}

/* ------------------------------------------------- invalid calls (C12/C19) */
enum { X_IOOB = 1 << 4, X_KEY = 1 << 5, X_VALUE = 1 << 2, X_TYPE = 1 << 1, X_CLASS = 1 << 3,
       X_FORMAT = 1 << 8, X_RESOURCE = 1 << 10, X_NONE = 1 << 0 };
static int xbit(var e) { return 1 << exc_code(e); }

static int g_avoid_kf;   /* bit set of known-finding triggers the generator steers around */
enum { KF_PRINT_PARTIAL = 1, KF_DEL_NONHEAP_SILENT = 2, KF_PUSH_WRONG_TYPE = 4 };

static void expect_raise(Cont* c, const char* prop, const char* what, var ex, int accepted) {
  if (ex is NULL) {
    if (accepted & X_NONE) return;
    char cls[128]; snprintf(cls, sizeof cls, "%s:no-exception:%s:%s", prop, what, KNAME[c->kind]);
    viol(prop, cls, "invalid call '%s' on %s(len %d) raised nothing", what, KNAME[c->kind], c->n);
  }
  if (!(xbit(ex) & accepted)) {
    char cls[128]; snprintf(cls, sizeof cls, "%s:wrong-exception:%s:%s", prop, what, KNAME[c->kind]);
    viol(prop, cls, "invalid call '%s' on %s raised %s", what, KNAME[c->kind], exc_name(ex));
  }
}

/* a refused del / dealloc of an element that lives inside a container is a C19 matter (non-heap objects are never freed) and, when the
 * C12 check is the one running, a C12 matter too (the failed call raised but must have changed nothing) */
#define EMB_PROP() (g_focus == 12 ? "C12" : "C19")
static void do_bad(const Op* o) {
  Cont* c = pick(o->a[0]); if (!c) return;
  int kind = (int)(((o->a[1] % 32) + 32) % 32);
  int64_t x = o->a[2];
  var volatile ex = NULL;
  const char* what = "none"; int acc = 0; const char* prop = "C12";
  int n = c->n;
  var obj = c->obj;
  long tl = tok_live();
  progress(g_opidx, "C12", "bad");
  int refuse_seq = is_seq(c->kind) && c->kind != K_TUPLE && c->kt == ET_TOK;
  int refuse_map = is_map(c->kind) && (c->vt == ET_TOK || c->kt == ET_TOK);
  if ((refuse_seq || refuse_map) && ((x % 4) + 4) % 4 == 0) {
    /* the element type's own Assign refuses the value half-way through the operation (it raises before it changes anything):
     * the container must be as it was */
    int64_t w = ((x / 4 % 3) + 3) % 3;
    acc = X_VALUE;
    if (refuse_seq) {
      int i = n ? (int)((((x / 12) % n) + n) % n) : 0;
      if (w == 0 || n == 0) { what = "push-refused-value"; try { push(obj, TOK_T(TOK_REFUSED)); } catch (e) { ex = e; } }
      else if (w == 1) { what = "push_at-refused-value"; try { push_at(obj, TOK_T(TOK_REFUSED), $I(i)); } catch (e) { ex = e; } }
      else { what = "set-refused-value"; try { set(obj, $I(i), TOK_T(TOK_REFUSED)); } catch (e) { ex = e; } }
    } else {
      int64_t akv = 0; int found = 0;
      for (int t = 0; t < 200 && !found; t++) { akv = keyval(c->kind, c->kt, x + t); if (map_find(c, akv) < 0) found = 1; }
      /* known finding (known_findings.jsonl): Table_Set_Move (always) and Tree_Set (fresh key) construct the key copy before
       * the value copy; when the value's Assign raises, the key copy is never finalised - one live element more than the
       * containers hold.  The leaked copy is written off (tok_forgive) unless the plan asks for it to be reported (env
       * kf.enable bit 1, set by the probe); everything else about the failed call is judged as usual. */
      int can_val_fresh = c->vt == ET_TOK && found;
      int can_val_exist = c->vt == ET_TOK && n;
      int can_key = c->kt == ET_TOK;
      if (can_val_fresh && (w == 0 || !can_val_exist)) { what = "set-fresh-key-refused-value"; try { set(obj, MKVAL(c->kt, akv), TOK_T(TOK_REFUSED)); } catch (e) { ex = e; } }
      else if (can_val_exist && (w <= 1 || !can_key)) { what = "set-existing-key-refused-value"; try { set(obj, MKVAL(c->kt, c->k[(((x / 12) % n) + n) % n]), TOK_T(TOK_REFUSED)); } catch (e) { ex = e; } }
      else if (can_key) { what = "set-refused-key"; try { set(obj, TOK_T(TOK_REFUSED), MKVAL(c->vt, seqval(c->vt, x))); } catch (e) { ex = e; } }
      else return;
    }
    stat_add("bad.refused-by-element-assign", 1);
    if (refuse_map && !(g_kf_enable & 1) && tok_live() > tl && c->kt == ET_TOK) {
      /* the key copy of the known finding: written off unless the plan asks for it to be reported */
      stat_add("bad.known_key_copy_leak_written_off", tok_live() - tl);
      tok_forgive(tok_live() - tl);
    }
    goto bad_tail;
  }
  if (kind >= 28 && (g_focus == 12 || g_focus == 0)) {
    /* value-type receivers that are not containers of the plan: a Range view and the NULL object */
    if (kind == 28 || kind == 29) {
      int64_t m = 1 + ((x % 9) + 9) % 9;
      int64_t far_[] = { m, -m - 1, m + 1000, INT64_MAX, -m - 1000 };
      int64_t bi = far_[((x / 9 % 5) + 5) % 5];
      var rg = range($I(m));
      what = "range-get-out-of-range"; acc = X_IOOB;
      if (x & 64) {
        /* ... while an iteration over the same Range is in progress: the loop must go on as if nothing had happened */
        int64_t cnt = 0;
        foreach (it in rg) {
          if (cnt == 1 || m == 1) { try { get(rg, $I(bi)); } catch (e) { ex = e; } }
          if (c_int(it) != cnt) viol("C12", "C12:state-changed:range-get-out-of-range:Range", "a failed get during an iteration changed what the iteration yields (item %lld is %lld)", (long long)cnt, (long long)c_int(it));
          if (++cnt > 64) break;
        }
        if (cnt != m) viol("C12", "C12:state-changed:range-get-out-of-range:Range", "a failed get during an iteration: the loop over range(%lld) ran %lld times", (long long)m, (long long)cnt);
        stat_add("bad.range-get-during-iteration", 1);
      } else
      try { get(rg, $I(bi)); } catch (e) { ex = e; }
      if (len(rg) != (size_t)m) viol("C12", "C12:state-changed:range-get-out-of-range:Range", "a failed get changed the Range");
    } else if (kind == 30) {
      what = "null-object"; acc = X_VALUE;
      try { if (x & 1) len(NULL); else push(NULL, $I(1)); } catch (e) { ex = e; }
    } else {
      /* a stack Tuple cannot be resized: every attempt must raise and leave it as it was */
      var a0 = $I(10), a1 = $I(20), a2 = $I(30);
      var t = tuple(a0, a1, a2);
      int w = (int)(((x % 8) + 8) % 8);
      static const char* wn[] = { "stack-tuple-pop_at", "stack-tuple-rem", "stack-tuple-push", "stack-tuple-pop", "stack-tuple-resize", "stack-tuple-push_at",
                                  "stack-tuple-assign", "stack-tuple-assign-from-filter" };
      what = wn[w]; acc = X_VALUE | X_RESOURCE;
      try { switch (w) { case 0: pop_at(t, $I(x % 3 < 0 ? 0 : x % 3)); break; case 1: rem(t, $I(20)); break; case 2: push(t, a0); break;
                         case 3: pop(t); break; case 4: resize(t, 1); break; case 5: push_at(t, a2, $I(1)); break;
                         case 6: assign(t, tuple(a2, a1)); break; default: assign(t, filter(tuple(a2, a1), $(Function, view_accept_all))); break; } } catch (e) { ex = e; }
      if (len(t) != 3 || get(t, $I(0)) isnt a0 || get(t, $I(1)) isnt a1 || get(t, $I(2)) isnt a2) {
        char cls[96]; snprintf(cls, sizeof cls, "C12:state-changed:%s", what); viol("C12", cls, "the refused call '%s' changed the stack Tuple", what);
      }
    }
    g_lastop = what;
    stat_add("bad.injected", 1);
    { char k[48]; snprintf(k, sizeof k, "bad.%s", what); stat_add(k, 1); }
    if (ex is NULL) { char cls[96]; snprintf(cls, sizeof cls, "C12:no-exception:%s", what); viol("C12", cls, "invalid call '%s' raised nothing", what); }
    if (!(xbit(ex) & acc)) { char cls[96]; snprintf(cls, sizeof cls, "C12:wrong-exception:%s", what); viol("C12", cls, "invalid call '%s' raised %s", what, exc_name(ex)); }
    return;
  }
  if (is_seq(c->kind)) {
    int64_t far_[] = { n, -(int64_t)n - 1, n + 1000, INT64_MAX, INT64_MIN, -(int64_t)n - 1000 };
    int64_t bi = far_[((x % 6) + 6) % 6];
    int64_t v = seqval(elem_et(c), x);
    var val = c->kind == K_TUPLE ? (var)$I(v) : MKVAL(c->kt, v);
    switch (kind % 12) {
      case 0: what = "get-out-of-range"; acc = X_IOOB; try { get(obj, $I(bi)); } catch (e) { ex = e; } break;
      case 1: what = "set-out-of-range"; acc = X_IOOB; try { set(obj, $I(bi), val); } catch (e) { ex = e; } break;
      case 2: what = "pop_at-out-of-range"; acc = X_IOOB; try { pop_at(obj, $I(bi)); } catch (e) { ex = e; } break;
      case 3: if (n != 0) { what = "pop_at-out-of-range"; acc = X_IOOB; try { pop_at(obj, $I(bi)); } catch (e) { ex = e; } }
              else { what = "pop-empty"; acc = X_IOOB; try { pop(obj); } catch (e) { ex = e; } } break;
      case 4: { int64_t pi[] = { n + 1, -(int64_t)n - 2, INT64_MAX, INT64_MIN, n + 1000 };
                what = "push_at-out-of-range"; acc = X_IOOB; try { push_at(obj, val, $I(pi[((x % 5) + 5) % 5])); } catch (e) { ex = e; } break; }
      case 5: { what = "rem-absent"; acc = c->kind == K_TUPLE ? (X_NONE | X_VALUE) : X_VALUE;
                int64_t av = elem_et(c) == ET_STR ? normv(ET_STR, 63) : 987654321;
                int present = 0; for (int i = 0; i < n; i++) if (veq(elem_et(c), elemv(c, i), av)) present = 1;
                if (present) return;
                try { rem(obj, MKVAL(elem_et(c), av)); } catch (e) { ex = e; } break; }
      case 6: what = "get-null-key"; acc = X_VALUE; try { get(obj, NULL); } catch (e) { ex = e; } break;
      case 7: if (c->kind != K_TUPLE) return;
              what = "resize-tuple-grow"; acc = X_FORMAT | X_RESOURCE | X_VALUE; try { resize(obj, (size_t)n + (size_t)(x & 3)); } catch (e) { ex = e; } break;
      case 8: { /* C19: wrong deallocation of an embedded element */
                if (c->kind == K_TUPLE || n == 0) return;
                prop = EMB_PROP(); progress(g_opidx, prop, "bad-dealloc-embedded");
                var el = get(obj, $I(x % n < 0 ? 0 : x % n));
                what = "dealloc-embedded"; acc = X_RESOURCE | X_VALUE; try { dealloc(el); } catch (e) { ex = e; } break; }
      case 9: { if (c->kind == K_TUPLE || n == 0) return;
                if (g_avoid_kf & KF_DEL_NONHEAP_SILENT) return;
                prop = EMB_PROP(); progress(g_opidx, prop, "bad-del-embedded");
                var el = get(obj, $I(x % n < 0 ? 0 : x % n));
                what = (x & 1) ? "del_raw-embedded" : "del-embedded"; acc = X_RESOURCE | X_VALUE;
                try { if (x & 1) del_raw(el); else del(el); } catch (e) { ex = e; } break; }
      case 10: if (c->kind != K_TUPLE && (c->kt == ET_INT || c->kt == ET_FLT) && (x & 1)) {
                 what = "push-wrong-type"; acc = X_CLASS | X_VALUE | X_TYPE; try { push(obj, $S("not a number")); } catch (e) { ex = e; } break; }
               what = "index-not-int"; acc = X_CLASS | X_VALUE | X_TYPE; try { get(obj, $S("zero")); } catch (e) { ex = e; } break;
      default: what = "unimplemented-class"; acc = X_CLASS; try { sopen(obj, $S("x"), $S("r")); } catch (e) { ex = e; } break;
    }
  } else if (is_map(c->kind)) {
    /* an absent key of the right type */
    int64_t akv = 0; int found = 0;
    for (int t = 0; t < 200 && !found; t++) { akv = keyval(c->kind, c->kt, x + t); if (map_find(c, akv) < 0) found = 1; }
    var wrongk = c->kt == ET_STR ? (var)$I(3) : (var)$S("wrong");
    var wrongv = c->vt == ET_STR ? (var)$F(1.5) : (var)$S("wrong");
    int64_t pv = seqval(c->vt, x);
    int64_t pk = n ? c->k[((x % n) + n) % n] : akv;
    switch (kind % 12) {
      case 0: if (!found) return; what = "get-absent"; acc = X_KEY; try { get(obj, MKVAL(c->kt, akv)); } catch (e) { ex = e; } break;
      case 1: if (!found) return; what = "rem-absent"; acc = X_KEY; try { rem(obj, MKVAL(c->kt, akv)); } catch (e) { ex = e; } break;
      case 2: what = "set-wrong-key-type"; acc = X_VALUE | X_TYPE; try { set(obj, wrongk, MKVAL(c->vt, pv)); } catch (e) { ex = e; } break;
      case 3: what = "set-wrong-value-type"; acc = X_VALUE | X_TYPE; try { set(obj, MKVAL(c->kt, pk), wrongv); } catch (e) { ex = e; } break;
      case 4: what = "get-wrong-key-type"; acc = X_VALUE | X_TYPE; try { get(obj, wrongk); } catch (e) { ex = e; } break;
      case 5: what = "mem-wrong-key-type"; acc = X_VALUE | X_TYPE; try { mem(obj, wrongk); } catch (e) { ex = e; } break;
      case 6: what = "rem-wrong-key-type"; acc = X_VALUE | X_TYPE; try { rem(obj, wrongk); } catch (e) { ex = e; } break;
      case 7: what = "get-null-key"; acc = X_VALUE; try { get(obj, NULL); } catch (e) { ex = e; } break;
      case 8: if (c->kind == K_TABLE) { if (n < 2) return; what = "resize-below-len"; acc = X_FORMAT | X_RESOURCE | X_VALUE; try { resize(obj, 1 + (size_t)(((x % (n - 1)) + (n - 1)) % (n - 1))); } catch (e) { ex = e; } }
              else { what = "resize-tree-nonzero"; acc = X_FORMAT | X_RESOURCE | X_VALUE; try { resize(obj, 1 + (size_t)(x & 7)); } catch (e) { ex = e; } } break;
      case 9: { if (n == 0) return; prop = EMB_PROP(); progress(g_opidx, prop, "bad-dealloc-embedded");
                var el = get(obj, MKVAL(c->kt, pk));
                what = "dealloc-embedded"; acc = X_RESOURCE | X_VALUE; try { dealloc(el); } catch (e) { ex = e; } break; }
      case 10: what = "set-null-value"; acc = X_VALUE; try { set(obj, MKVAL(c->kt, pk), NULL); } catch (e) { ex = e; } break;
      default: what = "unimplemented-class"; acc = X_CLASS; try { push(obj, $I(1)); } catch (e) { ex = e; } break;
    }
  } else {
    switch (kind % 6) {
      case 0: { if (g_avoid_kf & KF_PRINT_PARTIAL) return;
              static const char* fm[] = { "%i and %i", "%i%%%i", "%%%i %i", "rate: %i%%%s", "%%%%%i%s", "%s", "a%%b%ic%i" };
              int fi = (int)(((x % 7) + 7) % 7);
              what = "print-too-few-args"; acc = X_FORMAT;
              try { if (fi == 5) print_to(obj, 0, fm[fi]); else print_to(obj, 0, fm[fi], $I(x)); } catch (e) { ex = e; } break; }
      case 1: what = "concat-null"; acc = X_VALUE; try { concat(obj, NULL); } catch (e) { ex = e; } break;
      case 2: what = "concat-no-c_str"; acc = X_CLASS | X_VALUE | X_TYPE; try { concat(obj, $I(5)); } catch (e) { ex = e; } break;
      case 3: what = "unimplemented-class"; acc = X_CLASS; try { push(obj, $I(1)); } catch (e) { ex = e; } break;
      case 4: if (x & 1) { what = "assign-null"; acc = X_VALUE; try { assign(obj, NULL); } catch (e) { ex = e; } }
              else { what = "assign-no-c_str"; acc = X_CLASS | X_VALUE | X_TYPE; try { assign(obj, $I(42)); } catch (e) { ex = e; } } break;
      default: { /* C19: in-place operations on a stack String */
        prop = "C19"; progress(g_opidx, "C19", "bad-stack-string");
        char lit[16] = "stack"; var s = $S(lit);
        int w = (int)(((x % 4) + 4) % 4);
        what = w == 0 ? "resize-stack-string" : w == 1 ? "concat-stack-string" : w == 2 ? "assign-stack-string" : "dealloc-stack-string";
        acc = X_VALUE | X_RESOURCE;
        try { if (w == 0) resize(s, 40); else if (w == 1) concat(s, $S("more")); else if (w == 2) assign(s, $S("other")); else dealloc(s); } catch (e) { ex = e; }
        if (strcmp(lit, "stack") != 0 || c_str(s) != lit) viol("C19", "C19:stack-object-changed", "%s changed a stack String", what);
        break; }
    }
  }
bad_tail:
  g_lastop = what;
  stat_add("bad.injected", 1);
  { char k[48]; snprintf(k, sizeof k, "bad.%s", what); stat_add(k, 1); }
  if (!(g_focus == 0 || g_focus == 12 || g_focus == 19)) {
    /* another property's check is running: the failed call is just one more operation, judged by the model and the
     * element ledger under their own names (so that a leak on a failing call shows up as C05, a changed Table as C02) */
    check_cont(c, 1);
    return;
  }
  expect_raise(c, prop, what, ex, acc);
  /* the object is exactly as before: model unchanged, element ledger unchanged */
  if (tok_live() != tl) {
    char cls[128]; snprintf(cls, sizeof cls, "%s:state-changed:%s:%s", prop, what, KNAME[c->kind]);
    viol(prop, cls, "failed call '%s' changed the number of live elements (%ld -> %ld)", what, tl, tok_live());
  }
  /* re-run the container check with classes re-labelled as this property's "state-changed" */
  {
    size_t L = c->kind == K_STRING ? strlen(c_str(obj)) : len(obj);
    size_t want = c->kind == K_STRING ? strlen(c->s) : (size_t)c->n;
    if (L != want || (c->kind == K_STRING && strcmp(c_str(obj), c->s) != 0)) {
      char cls[128]; snprintf(cls, sizeof cls, "%s:state-changed:%s:%s", prop, what, KNAME[c->kind]);
      viol(prop, cls, "failed call '%s' changed the %s (len %zu, before %zu)", what, KNAME[c->kind], L, want);
    }
  }
  g_bad_pending = what; g_bad_prop = prop;
  check_cont(c, 1);
  g_bad_pending = NULL;
}

/* ============================================================= executor */
static void exec_op(const Op* o) {
  switch (o->code) {
    case O_NEW: do_new(o); break;
    case O_DEL: { Cont* c = pick(o->a[0]); if (c) { progress(g_opidx, "C05", "del"); del_cont(c); g_lastop = "del"; } break; }
    case O_PUSH: do_push(o); break;
    case O_POP: do_pop(o); break;
    case O_PUSH_AT: do_push_at(o); break;
    case O_POP_AT: do_pop_at(o); break;
    case O_SET: do_set(o); break;
    case O_GET: do_get(o); break;
    case O_REM: do_rem(o); break;
    case O_MEM: do_mem(o); break;
    case O_CONCAT: do_concat(o); break;
    case O_RESIZE: do_resize(o); break;
    case O_SORT: do_sort(o); break;
    case O_ASSIGN: do_assign(o); break;
    case O_COPY: do_copy(o); break;
    case O_TWIN: do_twin(o); break;
    case O_SWAP: do_swap(o); break;
    case O_CHECK: { Cont* c = pick(o->a[0]); if (c) { progress(g_opidx, cont_prop(c), "check"); check_cont(c, 1); } break; }
    case O_SASSIGN: do_sassign(o); break;
    case O_SCONCAT: do_sconcat(o); break;
    case O_SREM: do_srem(o); break;
    case O_SMEM: do_smem(o); break;
    case O_SPRINT: do_sprint(o); break;
    case O_BAD: do_bad(o); break;
    case O_VIEW: do_view(o); break;
    case O_SWAPV: do_swapv(o); break;
    case O_ELEMCAT: do_elemcat(o); break;
    case O_BURST: progress(g_opidx, "C01", "burst"); burst((int)(((o->a[0] % 64) + 64) % 64) + 2); break;
    default: break;
  }
}

static void nontrivial_eval(void);

static void containers_execute(const Plan* p) {
  volatile var roots[MAXC] = { NULL, NULL, NULL, NULL };
  g_roots = roots;
  strpool_init();
  g_focus = (int)plan_env(p, "focus", 0);
  g_transcript = (int)plan_env(p, "transcript", 0);
  g_avoid_kf = (int)plan_env(p, "avoid_kf", 0);
  g_kf_enable = plan_env(p, "kf.enable", 0);
  memset(C, 0, sizeof C);
  for (int i = 0; i < p->nops; i++) {
    const Op* o = &p->ops[i];
    g_opidx = i;
    progress(i, "C05", OPS[o->code].name);
    ev("op %d %s", i, OPS[o->code].name);
    {
      /* an in-contract operation (and the harness reads that follow it) must not raise: report it under a proper class
       * instead of dying with an uncaught exception; a ValueError while the C19 check runs is an invalid object header */
      var volatile uex = NULL;
      try { exec_op(o); } catch (e) { uex = e; }
      if (uex) {
        const char* pp = (g_focus == 19 && uex is ValueError) ? "C19" : progress_prop();
        char cls[128]; snprintf(cls, sizeof cls, "%s:unexpected-exception:%s:%s", pp, OPS[o->code].name, exc_name(uex));
        viol(pp, cls, "operation %s raised %s although its arguments are valid (after %s)", OPS[o->code].name, exc_name(uex), g_lastop);
      }
    }
    progress(i, "C05", "ledger");
    check_ledger();
    if (o->fault == 1) { progress(i, "C01", "burst"); burst(12); for (int k = 0; k < MAXC; k++) if (C[k].live) { progress(i, cont_prop(&C[k]), "post-burst"); check_cont(&C[k], 0); } progress(i, "C05", "ledger"); check_ledger(); }
    for (int k = 0; k < MAXC; k++) if (C[k].live) ev("c%d %s n=%d", k, KNAME[C[k].kind], C[k].n);
  }
  /* delete everything: every element must have been finalised exactly once */
  progress(p->nops, "C05", "final-del");
  for (int k = 0; k < MAXC; k++) if (C[k].live) { del_cont(&C[k]); check_ledger(); }
  if (tok_live() != 0) viol("C05", "C05:leaked-elements", "%ld elements still live after every container was deleted", tok_live());
  stat_add("tok.issued", tok_issued());
  nontrivial_eval();
  g_roots = NULL;
}

/* ============================================================ generator */
typedef struct { int live, kind, kt, vt, managed, approx_n; } GC_;
static GC_ G[MAXC];
static int g_first_free(void) { for (int i = 0; i < MAXC; i++) if (!G[i].live) return i; return -1; }
static int g_nlive(void) { int n = 0; for (int i = 0; i < MAXC; i++) n += G[i].live; return n; }
static int g_pick(int64_t a) { int idx[MAXC], n = 0; for (int i = 0; i < MAXC; i++) if (G[i].live) idx[n++] = i; if (!n) return -1; return idx[(int)(((a % n) + n) % n)]; }
/* argument `a` such that pick(a) == slot */
static int64_t g_arg_for(int slot) { int n = 0; for (int i = 0; i < MAXC; i++) { if (i == slot) return n; if (G[i].live) n++; } return 0; }

static void gen_new(Plan* p, Rng* r, int focus) {
  int kind, kt = ET_INT, vt = ET_INT;
  switch (focus) {
    case 2: kind = K_TABLE; break;
    case 3: kind = K_TREE; break;
    case 4: kind = (int)rng_below(r, 3); break;
    case 16: kind = K_STRING; break;
    default: { static const int mix[] = { K_ARRAY, K_LIST, K_TUPLE, K_TABLE, K_TABLE, K_TREE, K_TREE, K_STRING, K_ARRAY, K_LIST };
               kind = mix[rng_below(r, 10)]; if (focus == 5 && (kind == K_STRING || kind == K_TUPLE)) kind = K_TABLE; }
  }
  int tokish = (focus == 5) ? 3 : (focus == 0 || focus == 10 || focus == 12 || focus == 19) ? 1 : (focus == 18 ? 0 : 1);
  if (kind == K_TABLE) {
    static const int kts[] = { ET_INT, ET_STR, ET_TOK, ET_INT, ET_P12 }; static const int vts[] = { ET_INT, ET_STR, ET_TOK, ET_TOK, ET_P12 };
    int i = (int)rng_below(r, 5); kt = kts[i]; vt = vts[rng_below(r, 5)];
    if (rng_below(r, 4) < (uint32_t)tokish) { kt = rng_chance(r, 1, 2) ? ET_TOK : kt; vt = ET_TOK; }
  } else if (kind == K_TREE) {
    static const int kts[] = { ET_INT, ET_STR, ET_CKEY, ET_INT, ET_P12 }; static const int vts[] = { ET_INT, ET_STR, ET_TOK, ET_INT, ET_P12 };
    kt = kts[rng_below(r, 5)]; vt = vts[rng_below(r, 5)];
    if (rng_below(r, 4) < (uint32_t)tokish) vt = ET_TOK;
  } else if (kind == K_ARRAY || kind == K_LIST) {
    static const int ets[] = { ET_INT, ET_FLT, ET_STR, ET_TOK, ET_INT, ET_CKEY, ET_P12 };
    kt = ets[rng_below(r, 7)];
    if (rng_below(r, 4) < (uint32_t)tokish) kt = ET_TOK;
  }
  if (focus == 18 && (kt == ET_TOK || vt == ET_TOK)) { if (kt == ET_TOK) kt = ET_INT; if (vt == ET_TOK) vt = ET_INT; }
  int managed = rng_chance(r, 1, 3);
  int slot = g_first_free();
  int64_t victim = rng_below(r, 4);
  if (slot < 0) slot = g_pick(victim);
  plan_add(p, O_NEW, 0, 0, kind, kt, vt, managed, victim, 0);
  G[slot].live = 1; G[slot].kind = kind; G[slot].kt = kt; G[slot].vt = vt; G[slot].managed = managed; G[slot].approx_n = 0;
}

static void containers_generate(Plan* p, Rng* r) {
  strpool_init();
  int focus = (int)plan_env(p, "focus", 0);
  if (plan_env(p, "alloc.place", -1) < 0) { static const int pl[] = { PLACE_BUMP, PLACE_LIFO, PLACE_LIFO, PLACE_QUARANTINE, PLACE_SEEDED };
    plan_env_set(p, "alloc.place", focus == 18 ? PLACE_BUMP : pl[rng_below(r, 5)]); }
  if (plan_env(p, "alloc.realloc", -1) < 0) plan_env_set(p, "alloc.realloc", focus == 18 ? REALLOC_MOVE : (int)rng_below(r, 3));
  if (focus == 18) plan_env_set(p, "transcript", 1);
  memset(G, 0, sizeof G);
  int ninit = 1 + (int)rng_below(r, 3);
  if (focus == 10 || focus == 5) ninit = 2 + (int)rng_below(r, 2);
  for (int i = 0; i < ninit; i++) gen_new(p, r, focus);
  if ((focus == 10 || focus == 5 || focus == 0) && rng_chance(r, 1, 2) && G[0].live && G[1].live && G[0].kind != K_STRING) {
    /* make slot 1 the same kind family as slot 0 so assign/swap/concat are applicable */
    p->ops[1].a[0] = (G[0].kind == K_ARRAY && rng_chance(r, 1, 2)) ? K_LIST : G[0].kind;
    p->ops[1].a[1] = G[0].kt; p->ops[1].a[2] = G[0].vt;
    G[1].kind = (int)p->ops[1].a[0]; G[1].kt = G[0].kt; G[1].vt = G[0].vt;
  }
  int nops = rng_chance(r, 7, 10) ? 8 + (int)rng_below(r, 40) : 40 + (int)rng_below(r, 230);
  int mode = 0, mode_left = 0, seqctr = (int)rng_below(r, 64);
  int badpct = focus == 12 ? 22 : focus == 19 ? 14 : (focus == 0 || focus == 5 || focus == 2 || focus == 3 || focus == 4 || focus == 16) ? 3 : 0;
  for (int step = 0; step < nops && p->nops < MAXOPS - 8; step++) {
    if (mode_left-- <= 0) { mode = (int)rng_below(r, 4); mode_left = 6 + (int)rng_below(r, 40); }
    if (g_nlive() == 0) { gen_new(p, r, focus); continue; }
    int slot = g_pick(rng_below(r, 8));
    GC_* g = &G[slot];
    int64_t ca = g_arg_for(slot);
    int fault = (g->managed && rng_chance(r, 1, 8)) ? 1 : 0;
    uint32_t d = rng_below(r, 100);
    int64_t rv = (int64_t)rng_below(r, 1000), ri = (int64_t)rng_below(r, 1000) - 500;
    if ((int)d < badpct) { int64_t b2 = (int64_t)rng_below(r, 5000), b1 = rng_below(r, 32); plan_add(p, O_BAD, 0, 0, ca, b1, b2, 0, 0, 0); continue; }
    d = rng_below(r, 100);
    /* structural ops common to all kinds */
    if (d < 2 && focus != 16) { gen_new(p, r, focus); continue; }
    if (d < 4 && g_nlive() > 1) { plan_add(p, O_DEL, 0, fault, ca, 0, 0, 0, 0, 0); g->live = 0; continue; }
    if (d < 7 && focus != 2 && focus != 3 && focus != 4 && focus != 16) { int fs = g_first_free(); plan_add(p, O_COPY, 0, fault, ca, 0, 0, 0, 0, 0);
      if (fs >= 0) { G[fs] = *g; G[fs].managed = 1; } continue; }
    if (d < 7 && (focus == 4 || focus == 2 || focus == 3 || focus == 16) && rng_chance(r, 1, 3)) { int fs = g_first_free(); plan_add(p, O_COPY, 0, fault, ca, 0, 0, 0, 0, 0);
      if (fs >= 0) { G[fs] = *g; G[fs].managed = 1; } continue; }
    if (d < 11 && g_nlive() > 1) {
      int other = g_pick(rng_below(r, 8)); if (other == slot) other = g_pick(ca + 1);
      /* pick_other(a, notme) indexes the live set without `notme` */
      int64_t oa = 0; { int n = 0; for (int i = 0; i < MAXC; i++) { if (i == slot || !G[i].live) continue; if (i == other) oa = n; n++; } }
      int opc = (focus == 10 && rng_chance(r, 1, 3)) ? O_SWAP : O_ASSIGN;
      if (rng_chance(r, 1, 6)) opc = O_SWAP;
      plan_add(p, opc, 0, fault, ca, oa, 0, 0, 0, 0);
      if (opc == O_ASSIGN && other >= 0) { int dk = g->kind; if ((dk == K_STRING) == (G[other].kind == K_STRING)) { g->kt = G[other].kt; g->vt = G[other].vt; g->approx_n = G[other].approx_n; } }
      continue; }
    if (d < (uint32_t)(focus == 10 ? 22 : 13)) { plan_add(p, O_TWIN, 0, fault, ca, rng_below(r, 4), 0, 0, 0, 0); continue; }
    if (d < (uint32_t)(focus == 10 ? 24 : 15)) { plan_add(p, O_CHECK, 0, fault, ca, 0, 0, 0, 0, 0); continue; }
    if ((focus == 10 || focus == 0) && d < 30) { int64_t s3 = (int64_t)rng_below(r, 1000000), s2 = (int64_t)rng_below(r, 1000000), s1 = rng_below(r, 8); plan_add(p, O_SWAPV, 0, 0, s1, s2, s3, 0, 0, 0); continue; }
    d = rng_below(r, 100);
    if (g->kind == K_STRING) {
      int64_t m = rng_below(r, 7), x = (int64_t)rng_below(r, 100000);
      if (d < 12) plan_add(p, O_SASSIGN, 0, fault, ca, m, x, 0, 0, 0);
      else if (d < 42) plan_add(p, O_SCONCAT, 0, fault, ca, m, x, rng_below(r, 2), 0, 0);
      else if (d < 64) { int64_t m1 = rng_chance(r, 3, 4) ? 1 + rng_below(r, 5) : 0; plan_add(p, O_SREM, 0, fault, ca, m1, x, 0, 0, 0); }
      else if (d < 72) plan_add(p, O_SMEM, 0, fault, ca, m, x, 0, 0, 0);
      else if (d < 86) plan_add(p, O_RESIZE, 0, fault, ca, x, 0, 0, 0, 0);
      else { int64_t p3 = (int64_t)rng_below(r, 2000) - 1000, p2 = rng_below(r, focus == 18 ? 11 : 12); plan_add(p, O_SPRINT, 0, fault, ca, x, p2, p3, 0, 0); }
      continue;
    }
    if (g->kind == K_TABLE || g->kind == K_TREE) {
      if (g->vt == ET_STR && rng_chance(r, 1, 20)) { plan_add(p, O_ELEMCAT, 0, fault, ca, (int64_t)rng_below(r, 100000), 0, 0, 0, 0); continue; }
      /* modes: 0 fill with consecutive pool keys (long collision runs / ascending), 1 drain, 2 mix, 3 descending */
      int64_t kidx = mode == 0 ? seqctr++ : mode == 3 ? seqctr-- : (int64_t)rng_below(r, 96);
      int64_t sfl = rng_chance(r, 1, 10) ? 1 : 0; if (!sfl && rng_chance(r, 1, 40)) sfl = 2;   /* arguments that point into the map itself */
      if (mode == 0 || mode == 3) {
        if (d < 70) { plan_add(p, O_SET, 0, fault, ca, kidx, rv, sfl, 0, 0); g->approx_n++; }
        else if (d < 80) plan_add(p, O_SET, 0, fault, ca, (int64_t)rng_below(r, 96), rv, sfl, 0, 0);
        else if (d < 90) plan_add(p, O_REM, 0, fault, ca, (int64_t)rng_below(r, 400), 0, 0, 0, 0);
        else plan_add(p, O_GET, 0, fault, ca, (int64_t)rng_below(r, 96), 0, 0, 0, 0);
      } else if (mode == 1) {
        if (d < 75) { plan_add(p, O_REM, 0, fault, ca, 2 * (int64_t)rng_below(r, 400) + 1, 0, 0, 0, 0); if (g->approx_n) g->approx_n--; }
        else if (d < 85) plan_add(p, O_SET, 0, fault, ca, kidx, rv, sfl, 0, 0);
        else if (d < 92) plan_add(p, O_MEM, 0, fault, ca, kidx, 0, 0, 0, 0);
        else plan_add(p, O_RESIZE, 0, fault, ca, (int64_t)rng_below(r, 300), 0, 0, 0, 0);
      } else {
        if (d < 40) plan_add(p, O_SET, 0, fault, ca, kidx, rv, sfl, 0, 0);
        else if (d < 65) plan_add(p, O_REM, 0, fault, ca, (int64_t)rng_below(r, 400), 0, 0, 0, 0);
        else if (d < 78) plan_add(p, O_GET, 0, fault, ca, kidx, 0, 0, 0, 0);
        else if (d < 88) plan_add(p, O_MEM, 0, fault, ca, kidx, 0, 0, 0, 0);
        else if (d < 96) plan_add(p, O_RESIZE, 0, fault, ca, (int64_t)rng_below(r, 300), 0, 0, 0, 0);
        else plan_add(p, O_SET, 0, fault, ca, kidx, rv, sfl, 0, 0);
      }
      continue;
    }
    /* sequences: modes 0 grow, 1 shrink, 2/3 mix */
    if (g->kind != K_STRING && g->kind != K_TUPLE && rng_chance(r, 1, 25)) { plan_add(p, O_ELEMCAT, 0, fault, ca, (int64_t)rng_below(r, 100000), 0, 0, 0, 0); continue; }
    if ((focus == 18 || focus == 0) && d < 12) { int64_t v3 = (int64_t)rng_below(r, 1000), v1 = rng_below(r, 6); plan_add(p, O_VIEW, 0, 0, ca, v1, rv, v3, 0, 0); continue; }
    if (mode == 0) {
      if (d < 55) plan_add(p, O_PUSH, 0, fault, ca, rv, rng_below(r, 2), 0, 0, 0);
      else if (d < 80) plan_add(p, O_PUSH_AT, 0, fault, ca, rv, ri, 0, 0, 0);
      else if (d < 88) plan_add(p, O_CONCAT, 0, fault, ca, rng_below(r, 8), 0, 0, 0, 0);
      else if (d < 94) plan_add(p, O_SET, 0, fault, ca, ri, rv, 0, 0, 0);
      else plan_add(p, O_GET, 0, fault, ca, ri, 0, 0, 0, 0);
    } else if (mode == 1) {
      if (d < 40) plan_add(p, O_POP, 0, fault, ca, 0, 0, 0, 0, 0);
      else if (d < 70) plan_add(p, O_POP_AT, 0, fault, ca, ri, 0, 0, 0, 0);
      else if (d < 85) plan_add(p, O_REM, 0, fault, ca, rv, 0, 0, 0, 0);
      else if (d < 93) plan_add(p, O_RESIZE, 0, fault, ca, rv, 0, 0, 0, 0);
      else plan_add(p, O_SORT, 0, fault, ca, rng_below(r, 2), 0, 0, 0, 0);
    } else {
      if (d < 18) plan_add(p, O_PUSH, 0, fault, ca, rv, rng_below(r, 2), 0, 0, 0);
      else if (d < 30) plan_add(p, O_PUSH_AT, 0, fault, ca, rv, ri, 0, 0, 0);
      else if (d < 38) plan_add(p, O_POP, 0, fault, ca, 0, 0, 0, 0, 0);
      else if (d < 48) plan_add(p, O_POP_AT, 0, fault, ca, ri, 0, 0, 0, 0);
      else if (d < 60) plan_add(p, O_SET, 0, fault, ca, ri, rv, 0, 0, 0);
      else if (d < 68) plan_add(p, O_GET, 0, fault, ca, ri, 0, 0, 0, 0);
      else if (d < 76) plan_add(p, O_REM, 0, fault, ca, rv, 0, 0, 0, 0);
      else if (d < 82) plan_add(p, O_MEM, 0, fault, ca, rv, 0, 0, 0, 0);
      else if (d < 88) plan_add(p, O_CONCAT, 0, fault, ca, rng_below(r, 8), 0, 0, 0, 0);
      else if (d < 93) plan_add(p, O_RESIZE, 0, fault, ca, rv, 0, 0, 0, 0);
      else plan_add(p, O_SORT, 0, fault, ca, rng_below(r, 2), 0, 0, 0, 0);
    }
  }
}

/* ------------------------------------------------------ non-trivial rule */
static void nontrivial_eval(void) {
  int f = g_focus, nt = 0;
  long tr = stat_get("tree.rem_root") > 0, t2 = stat_get("tree.rem_two_children") > 0;
  long fixes = (stat_get("tree.fix_red_sibling") > 0) + (stat_get("tree.fix_black_sib_red_parent") > 0) +
               (stat_get("tree.fix_black_sib_black_parent") > 0) + (stat_get("tree.fix_far_nephew_red") > 0) +
               (stat_get("tree.fix_near_nephew_red") > 0) + (stat_get("tree.rem_black_one_child") > 0) + (stat_get("tree.rem_red_leaf") > 0);
  long negkinds = (stat_get("seq.neg_get") > 0) + (stat_get("seq.neg_set") > 0) + (stat_get("seq.neg_pop_at") > 0) + (stat_get("seq.neg_push_at") > 0);
  switch (f) {
    case 2:  nt = stat_get("table.update_displaced") > 0 && stat_get("table.rehash_up") > 0 && stat_get("table.rehash_down") > 0 && stat_get("table.probe_wrapped") > 0; break;
    case 3:  nt = fixes >= 3; (void)tr; (void)t2; break;
    case 4:  nt = stat_get("seq.array_grow") >= 2 && stat_get("seq.array_shrink") >= 1 && negkinds >= 3; break;
    case 5:  nt = tok_issued() > 0 && ((stat_get("table.rehash_up") > 0) + (stat_get("tree.rem_two_children") > 0) + (stat_get("seq.sort") > 0) +
                   (stat_get("assign.cross_kind") > 0) + (stat_get("copy") > 0)) >= 2; break;
    case 10: nt = stat_get("c10.pairs") >= 2; break;
    case 12: { int kinds = 0; static const char* ks[] = { "bad.get-out-of-range", "bad.set-out-of-range", "bad.pop_at-out-of-range", "bad.pop-empty",
               "bad.push_at-out-of-range", "bad.rem-absent", "bad.get-null-key", "bad.resize-tuple-grow", "bad.get-absent", "bad.set-wrong-key-type",
               "bad.set-wrong-value-type", "bad.get-wrong-key-type", "bad.mem-wrong-key-type", "bad.rem-wrong-key-type", "bad.resize-below-len",
               "bad.resize-tree-nonzero", "bad.set-null-value", "bad.unimplemented-class", "bad.index-not-int", "bad.concat-null", "bad.concat-no-c_str",
               "bad.assign-null", "bad.print-too-few-args", "bad.push-wrong-type", "bad.range-get-out-of-range", "bad.null-object", "bad.stack-tuple-pop_at", "bad.stack-tuple-rem", "bad.stack-tuple-push", NULL };
               for (int i = 0; ks[i]; i++) kinds += stat_get(ks[i]) > 0;
               nt = kinds >= 5 && stat_get("seq.maxlen") + stat_get("table.max_slots") >= 2; break; }
    case 16: nt = stat_get("str.rem_middle") > 0 && stat_get("str.grow_after_shrink") > 0; break;
    case 18: nt = stat_get("new.seq") + stat_get("new.table") + stat_get("new.tree") + stat_get("new.string") >= 2; break;
    case 19: nt = stat_get("bad.dealloc-embedded") + stat_get("bad.del-embedded") + stat_get("bad.del_raw-embedded") + stat_get("bad.resize-stack-string") +
                  stat_get("bad.concat-stack-string") + stat_get("bad.assign-stack-string") + stat_get("bad.dealloc-stack-string") >= 2; break;
    default: nt = 1;
  }
  if (nt) mark_nontrivial();
}

const Scenario scen_containers = {
  "containers", OPS, O_NOPS, containers_generate, containers_execute, "C05"
};
