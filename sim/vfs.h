#ifndef VFS_H
#define VFS_H
#include <stddef.h>
#define VFS_NFILES   4
#define VFS_NSTREAMS 512
#define VFS_FILECAP  (256u << 10)
enum { VFS_F_NONE = 0, VFS_F_SHORT_READ, VFS_F_READ_ERR, VFS_F_WRITE_EIO, VFS_F_WRITE_ENOSPC, VFS_F_SEEK_ERR,
       VFS_F_FOPEN_FAIL, VFS_F_FCLOSE_FAIL, VFS_F_NKINDS };
extern int vfs_active;
void vfs_arm(int kind, int k);      /* the k-th matching callback from now fails */
int  vfs_disarm(void);              /* returns 1 if the armed fault fired */
const char* vfs_name(int i);
size_t vfs_size(int i);
const unsigned char* vfs_data(int i);
int vfs_exists(int i);
int vfs_open_streams(void);
#endif
