#include "sim.h"
static const OpInfo NOOPS[] = { { "nop", 0 } };
static void gen_none(Plan* p, Rng* r) { (void)p; (void)r; }
static void exec_none(const Plan* p) { (void)p; }
#ifndef HAVE_SCEN_THREADS
const Scenario scen_threads = { "threads", NOOPS, 1, gen_none, exec_none, "C13" };
#endif
#ifndef HAVE_SCEN_DISPATCH
const Scenario scen_dispatch = { "dispatch", NOOPS, 1, gen_none, exec_none, "C08" };
#endif
