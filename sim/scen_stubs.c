#include "sim.h"
static const OpInfo NOOPS[] = { { "nop", 0 } };
static void gen_none(Plan* p, Rng* r) { (void)p; (void)r; }
static void exec_none(const Plan* p) { (void)p; }
