/* Cello-side glue: creates the main collector the way the `main` macro does,
 * installs the yield hook, and defines the probe types shared by engines. */
#include "cglue.h"

#ifdef CELLO_VERIF
void sched_install_hook(void (*fn)(int)) { cello_verif_yield = fn; }
#else
void sched_install_hook(void (*fn)(int)) { (void)fn; }
#endif

static volatile char g_scrub_sink;

__attribute__((noinline)) void sim_scrub_stack(void) {
  volatile char buf[24 * 1024];
  memset((void*)buf, 0, sizeof buf);
  g_scrub_sink = buf[17];
}

#if !defined(CELLO_NGC)
void Cello_Verif_GC_Info(var self, size_t* nslots, size_t* nitems, size_t* mitems, uintptr_t* minptr, uintptr_t* maxptr, bool* running, size_t* freenum);
#endif
/* fault placement: allocate unreachable Ints until the calling thread's collector will collect on its (d+1)-th registration
 * from now - the next allocation(s) of the code under test become collection points */
void glue_gc_prime(int d) {
#if !defined(CELLO_NGC)
  int collected = 0;
  for (int guard = 0; guard < 100000; guard++) {
    size_t nitems = 0, mitems = 0; bool running = true;
    Cello_Verif_GC_Info(current(GC), NULL, &nitems, &mitems, NULL, NULL, &running, NULL);
    if (!running) return;
    long gap = (long)mitems - (long)nitems;
    if (gap == d || (gap < d && collected)) return;
    new(Int, $I(guard));
    size_t n2 = 0, m2 = 0;
    Cello_Verif_GC_Info(current(GC), NULL, &n2, &m2, NULL, NULL, NULL, NULL);
    if ((long)m2 - (long)n2 > gap) collected = 1;
  }
#else
  (void)d;
#endif
}

void glue_run(const Scenario* sc, const Plan* p) {
#ifndef CELLO_NGC
  var bottom = NULL;
  new_raw(GC, $R(&bottom));
#endif
  sc->execute(p);
}

/* ------------------------------------------------------------------ Tok */
#define TOK_MAX (1 << 20)
static unsigned char* tok_st;      /* harness memory, never scanned */
static unsigned char* tok_seen;
static long g_tok_live, g_tok_issued, g_tok_retired;
const char* tok_prop = "C05";

static void tok_init(void) {
  if (!tok_st) { tok_st = harness_alloc(TOK_MAX); tok_seen = harness_alloc(TOK_MAX); }
}
long tok_live(void) { return g_tok_live; }
/* n element copies that the library constructed for a call that then failed and never finalised (a listed known finding):
 * taken out of the live count so that the ledger keeps judging everything else */
void tok_forgive(long n) { g_tok_live -= n; }
long tok_issued(void) { return g_tok_issued; }
long tok_retired(void) { return g_tok_retired; }
int  tok_state(int64_t id) { tok_init(); return (id > 0 && id < TOK_MAX) ? tok_st[id] : 0; }

static void tok_fill_payload(struct Tok* t) {
  /* payload: 8..40 bytes derived from val, so a stale or foreign payload is recognisable */
  size_t n = 8 + (size_t)(((uint64_t)t->val * 7u) % 33u);
  t->payload = realloc(t->payload, n);
  for (size_t i = 0; i < n; i++) t->payload[i] = (char)((uint64_t)t->val * 31u + i);
  arena_tag(t->payload, TAG_HARNESS);
}

int tok_payload_ok(struct Tok* t) {
  if (t->id <= 0) return t->payload == NULL;
  if (!t->payload) return 0;
  size_t n = 8 + (size_t)(((uint64_t)t->val * 7u) % 33u);
  if (arena_block_size(t->payload) != n) return 0;
  for (size_t i = 0; i < n; i++) if (t->payload[i] != (char)((uint64_t)t->val * 31u + i)) return 0;
  return 1;
}

static void Tok_Assign(var self, var obj) {
  struct Tok* t = self;
  tok_init();
  int64_t v = c_int(obj);
  /* an element type may refuse a value: before anything has changed, as a well-behaved Assign does */
  if (v == TOK_REFUSED) throw(ValueError, "Tok refuses the value %i", $I(v));
  if (t->id == 0) {
    if (g_tok_issued + 1 >= TOK_MAX) viol("C05", "C05:harness:token-space", "too many tokens");
    t->id = ++g_tok_issued;
    tok_st[t->id] = 1;
    g_tok_live++;
    t->payload = NULL;
  } else if (t->id < 0 || t->id >= TOK_MAX || tok_st[t->id] != 1) {
    viol(tok_prop, "C05:assign-into-dead-element", "assign into element holding token %lld (state %d)",
         (long long)t->id, tok_state(t->id));
  }
  t->val = v;
  tok_fill_payload(t);
}

static void Tok_New(var self, var args) {
  if (len(args) >= 1) { Tok_Assign(self, get(args, $I(0))); }
  else { Tok_Assign(self, $I(0)); }
}

static void Tok_Del(var self) {
  struct Tok* t = self;
  tok_init();
  if (t->id == 0) {
    /* zero element (e.g. List padding) or template: nothing was ever issued */
    if (t->payload) viol(tok_prop, "C05:destruct-garbage", "destructor ran on id 0 with payload set");
    return;
  }
  if (t->id < 0 || t->id >= TOK_MAX || tok_st[t->id] == 0)
    viol(tok_prop, "C05:destruct-unknown", "destructor ran on bytes that are not an element (id %lld)", (long long)t->id);
  if (tok_st[t->id] == 2)
    viol(tok_prop, "C05:double-finalise", "element token %lld finalised twice", (long long)t->id);
  tok_st[t->id] = 2;
  g_tok_live--; g_tok_retired++;
  free(t->payload);
}

static int Tok_Cmp(var self, var obj) {
  struct Tok* t = self;
  int64_t o = c_int(obj);
  return t->val < o ? -1 : t->val > o ? 1 : 0;
}
static uint64_t Tok_Hash(var self) { struct Tok* t = self; return (uint64_t)t->val; }
static int64_t Tok_C_Int(var self) { struct Tok* t = self; return t->val; }
static int Tok_Show(var self, var out, int pos) {
  struct Tok* t = self;
  return print_to(out, pos, "<Tok %li>", $I(t->val));
}

var Tok = Cello(Tok,
  Instance(New, Tok_New, Tok_Del),
  Instance(Assign, Tok_Assign),
  Instance(Cmp, Tok_Cmp),
  Instance(Hash, Tok_Hash),
  Instance(C_Int, Tok_C_Int),
  Instance(Show, Tok_Show, NULL));

void tok_scan_begin(void) { tok_init(); memset(tok_seen, 0, (size_t)g_tok_issued + 2); }
static long g_scan_count;
void tok_scan_see(struct Tok* t, const char* where) {
  if (t->id == 0) return;           /* padding element */
  if (t->id < 0 || t->id > g_tok_issued)
    viol("C05", "C05:garbage-element", "%s holds bytes that are not an element (id %lld)", where, (long long)t->id);
  if (tok_st[t->id] != 1)
    viol("C05", "C05:contained-but-finalised", "%s holds element token %lld which was already finalised", where, (long long)t->id);
  if (tok_seen[t->id])
    viol("C05", "C05:duplicated-element", "element token %lld is visible at two places (%s)", (long long)t->id, where);
  if (!tok_payload_ok(t))
    viol("C05", "C05:payload-corrupt", "element token %lld in %s has a freed/foreign payload", (long long)t->id, where);
  tok_seen[t->id] = 1;
}
void tok_scan_end(const char* prop, long expect_live) {
  long seen = 0;
  for (long i = 1; i <= g_tok_issued; i++) seen += tok_seen[i];
  if (seen != g_tok_live)
    viol(prop, "C05:live-count-mismatch", "live elements %ld but %ld visible in containers", g_tok_live, seen);
  if (expect_live >= 0 && expect_live != g_tok_live)
    viol(prop, "C05:live-count-mismatch", "live elements %ld but containers hold %ld", g_tok_live, expect_live);
  (void)g_scan_count;
}

/* ----------------------------------------------------------------- CKey */
long ckey_cmp_calls;
static void CKey_Assign(var self, var obj) { ((struct CKey*)self)->val = c_int(obj); }
static int CKey_Cmp(var self, var obj) {
  ckey_cmp_calls++;
  int64_t a = ((struct CKey*)self)->val, b = c_int(obj);
  return a < b ? -1 : a > b ? 1 : 0;
}
static uint64_t CKey_Hash(var self) { return (uint64_t)((struct CKey*)self)->val; }
static int64_t CKey_C_Int(var self) { return ((struct CKey*)self)->val; }
var CKey = Cello(CKey,
  Instance(Assign, CKey_Assign),
  Instance(Cmp, CKey_Cmp),
  Instance(Hash, CKey_Hash),
  Instance(C_Int, CKey_C_Int));

/* ------------------------------------------------------- exception names */
const char* exc_name(var e) {
  if (e is NULL) return "none";
  if (e is TypeError) return "TypeError";
  if (e is ValueError) return "ValueError";
  if (e is ClassError) return "ClassError";
  if (e is IndexOutOfBoundsError) return "IndexOutOfBoundsError";
  if (e is KeyError) return "KeyError";
  if (e is OutOfMemoryError) return "OutOfMemoryError";
  if (e is IOError) return "IOError";
  if (e is FormatError) return "FormatError";
  if (e is BusyError) return "BusyError";
  if (e is ResourceError) return "ResourceError";
  return "other";
}
int exc_code(var e) {
  if (e is NULL) return 0;
  if (e is TypeError) return 1;
  if (e is ValueError) return 2;
  if (e is ClassError) return 3;
  if (e is IndexOutOfBoundsError) return 4;
  if (e is KeyError) return 5;
  if (e is OutOfMemoryError) return 6;
  if (e is IOError) return 7;
  if (e is FormatError) return 8;
  if (e is BusyError) return 9;
  if (e is ResourceError) return 10;
  return 99;
}
