/* cellosim kernel: rng, plan text format, fork-per-run executor, reporting.
 * Plain C: must not include Cello.h (it redefines `main`). */
#define _GNU_SOURCE
#include "sim.h"
#include <stdio.h>
#include <stdlib.h>
#include <string.h>
#include <unistd.h>
#include <errno.h>
#include <signal.h>
#include <pthread.h>
#include <sys/mman.h>
#include <sys/wait.h>
#include <sys/resource.h>
#include <sys/time.h>
#include <sched.h>

int __real_pthread_create(pthread_t*, const pthread_attr_t*, void*(*)(void*), void*);
int __real_pthread_join(pthread_t, void**);

/* ------------------------------------------------------------------ rng */
static uint64_t splitmix(uint64_t* x) {
  uint64_t z = (*x += 0x9e3779b97f4a7c15ULL);
  z = (z ^ (z >> 30)) * 0xbf58476d1ce4e5b9ULL;
  z = (z ^ (z >> 27)) * 0x94d049bb133111ebULL;
  return z ^ (z >> 31);
}
void rng_seed(Rng* r, uint64_t seed, uint64_t run, uint64_t stream) {
  uint64_t x = seed * 0x9E3779B97F4A7C15ULL ^ (run + 0x632BE59BD9B4E019ULL) * 0xD6E8FEB86659FD93ULL
             ^ (stream * 0xA0761D6478BD642FULL);
  for (int i = 0; i < 4; i++) r->s[i] = splitmix(&x);
}
static inline uint64_t rotl(uint64_t x, int k) { return (x << k) | (x >> (64 - k)); }
uint64_t rng_next(Rng* r) {
  uint64_t* s = r->s;
  uint64_t result = rotl(s[1] * 5, 7) * 9, t = s[1] << 17;
  s[2] ^= s[0]; s[3] ^= s[1]; s[1] ^= s[2]; s[0] ^= s[3]; s[2] ^= t; s[3] = rotl(s[3], 45);
  return result;
}
uint32_t rng_below(Rng* r, uint32_t n) { return n ? (uint32_t)((rng_next(r) >> 11) % n) : 0; }
int rng_chance(Rng* r, uint32_t num, uint32_t den) { return rng_below(r, den) < num; }
int64_t rng_range(Rng* r, int64_t lo, int64_t hi) {
  if (hi <= lo) return lo;
  return lo + (int64_t)((rng_next(r) >> 3) % (uint64_t)(hi - lo + 1));
}
uint64_t fnv1a(const void* data, size_t n, uint64_t h) {
  const unsigned char* p = data;
  for (size_t i = 0; i < n; i++) { h ^= p[i]; h *= 1099511628211ULL; }
  return h;
}

/* ----------------------------------------------------------------- plan */
int64_t plan_env(const Plan* p, const char* key, int64_t dflt) {
  for (int i = 0; i < p->nenv; i++) if (!strcmp(p->env[i].k, key)) return p->env[i].v;
  return dflt;
}
void plan_env_set(Plan* p, const char* key, int64_t v) {
  for (int i = 0; i < p->nenv; i++) if (!strcmp(p->env[i].k, key)) { p->env[i].v = v; return; }
  if (p->nenv >= MAXENV) { fprintf(stderr, "cellosim: too many env keys\n"); _exit(2); }
  snprintf(p->env[p->nenv].k, sizeof p->env[0].k, "%s", key);
  p->env[p->nenv++].v = v;
}
Op* plan_add(Plan* p, int code, int tid, int fault,
             int64_t a0, int64_t a1, int64_t a2, int64_t a3, int64_t a4, int64_t a5) {
  if (p->nops >= MAXOPS) return &p->ops[MAXOPS-1];
  Op* o = &p->ops[p->nops++];
  o->code = (uint16_t)code; o->tid = (uint8_t)tid; o->fault = (uint8_t)fault;
  o->a[0]=a0; o->a[1]=a1; o->a[2]=a2; o->a[3]=a3; o->a[4]=a4; o->a[5]=a5;
  return o;
}

static const Scenario* all_scen[] = {
  &scen_containers, &scen_heap, &scen_exc, &scen_threads, &scen_dispatch, &scen_files, NULL
};
const Scenario* scenario_find(const char* name) {
  for (int i = 0; all_scen[i]; i++) if (!strcmp(all_scen[i]->name, name)) return all_scen[i];
  return NULL;
}

static void plan_print(FILE* f, const Plan* p, const Scenario* sc) {
  fprintf(f, "plan v1 scen=%s seed=%llu run=%llu\n", p->scen,
          (unsigned long long)p->seed, (unsigned long long)p->run);
  for (int i = 0; i < p->nenv; i++)
    fprintf(f, "env %s=%lld\n", p->env[i].k, (long long)p->env[i].v);
  for (int i = 0; i < p->nops; i++) {
    const Op* o = &p->ops[i];
    const OpInfo* oi = &sc->ops[o->code];
    fprintf(f, "op %s t=%d f=%d", oi->name, o->tid, o->fault);
    for (int k = 0; k < oi->nargs; k++) fprintf(f, " %lld", (long long)o->a[k]);
    fputc('\n', f);
  }
  if (p->nsched) {
    fprintf(f, "sched");
    for (int i = 0; i < p->nsched; i++) fprintf(f, " %u:%u", p->sched[i].ord, p->sched[i].tid);
    fputc('\n', f);
  }
}

static int plan_parse(FILE* f, Plan* p, const Scenario** scp) {
  char line[1024];
  const Scenario* sc = NULL;
  memset(p, 0, sizeof *p);
  while (fgets(line, sizeof line, f)) {
    char* s = line;
    while (*s == ' ' || *s == '\t') s++;
    if (*s == '#' || *s == '\n' || *s == 0) continue;
    if (!strncmp(s, "plan ", 5)) {
      char scen[64] = ""; unsigned long long seed = 0, run = 0;
      if (sscanf(s, "plan v1 scen=%63s seed=%llu run=%llu", scen, &seed, &run) < 1) return -1;
      snprintf(p->scen, sizeof p->scen, "%.23s", scen);
      p->seed = seed; p->run = run;
      sc = scenario_find(scen);
      if (!sc) { fprintf(stderr, "cellosim: unknown scenario %s\n", scen); return -1; }
    } else if (!strncmp(s, "env ", 4)) {
      char* tok = strtok(s + 4, " \t\n");
      while (tok) {
        char* eq = strchr(tok, '=');
        if (eq) { *eq = 0; plan_env_set(p, tok, strtoll(eq + 1, NULL, 10)); }
        tok = strtok(NULL, " \t\n");
      }
    } else if (!strncmp(s, "op ", 3)) {
      if (!sc) return -1;
      char* tok = strtok(s + 3, " \t\n");
      if (!tok) return -1;
      int code = -1;
      for (int i = 0; i < sc->nopinfo; i++) if (!strcmp(sc->ops[i].name, tok)) { code = i; break; }
      if (code < 0) { fprintf(stderr, "cellosim: unknown op %s\n", tok); return -1; }
      if (p->nops >= MAXOPS) return -1;
      Op* o = &p->ops[p->nops++];
      memset(o, 0, sizeof *o);
      o->code = (uint16_t)code;
      int k = 0;
      while ((tok = strtok(NULL, " \t\n"))) {
        if (!strncmp(tok, "t=", 2)) o->tid = (uint8_t)atoi(tok + 2);
        else if (!strncmp(tok, "f=", 2)) o->fault = (uint8_t)atoi(tok + 2);
        else if (k < MAXARGS) o->a[k++] = strtoll(tok, NULL, 10);
      }
    } else if (!strncmp(s, "sched", 5)) {
      char* tok = strtok(s + 5, " \t\n");
      while (tok && p->nsched < MAXSCHED) {
        unsigned o = 0, t = 0;
        if (sscanf(tok, "%u:%u", &o, &t) == 2) { p->sched[p->nsched].ord = o; p->sched[p->nsched].tid = (uint8_t)t; p->nsched++; }
        tok = strtok(NULL, " \t\n");
      }
    } /* "expect", anything else: ignored */
  }
  *scp = sc;
  return sc ? 0 : -1;
}

/* ------------------------------------------------------------ reporting */
struct Shared {
  volatile int      opidx;
  volatile uint64_t hash;
  char              prop[8];
  char              opname[32];
  volatile int      phase;      /* 0 not started, 1 running, 2 reported */
};
static struct Shared* shm;
static uint64_t g_hash = FNV_INIT;
static uint64_t g_thash = FNV_INIT;
static long g_tlines;
int sim_verbose = 0;
int sim_transcript_fd = -1;
const char* sim_focus_prop = "";
static int g_nontrivial = 0;
static Plan g_plan;
static const Scenario* g_sc;

#define MAXSTAT 96
static struct { char k[40]; long v; } g_stat[MAXSTAT];
static int g_nstat;
static char g_other[512];

void stat_add(const char* key, long n) {
  for (int i = 0; i < g_nstat; i++) if (!strcmp(g_stat[i].k, key)) { g_stat[i].v += n; return; }
  if (g_nstat < MAXSTAT) { snprintf(g_stat[g_nstat].k, sizeof g_stat[0].k, "%s", key); g_stat[g_nstat++].v = n; }
}
void stat_max(const char* key, long n) {
  for (int i = 0; i < g_nstat; i++) if (!strcmp(g_stat[i].k, key)) { if (n > g_stat[i].v) g_stat[i].v = n; return; }
  stat_add(key, n);
}
long stat_get(const char* key) {
  for (int i = 0; i < g_nstat; i++) if (!strcmp(g_stat[i].k, key)) return g_stat[i].v;
  return 0;
}
void mark_nontrivial(void) { g_nontrivial = 1; }
uint64_t trace_hash(void) { return g_hash; }

void ev(const char* fmt, ...) {
  char buf[512];
  va_list va; va_start(va, fmt);
  int n = vsnprintf(buf, sizeof buf, fmt, va);
  va_end(va);
  if (n < 0) n = 0;
  if (n >= (int)sizeof buf) n = sizeof buf - 1;
  g_hash = fnv1a(buf, (size_t)n, g_hash);
  g_hash = fnv1a("\n", 1, g_hash);
  if (shm) shm->hash = g_hash;
  if (sim_verbose) { buf[n] = '\n'; (void)!write(2, buf, (size_t)n + 1); }
}
void ev_u64(const char* tag, uint64_t v) { ev("%s %llu", tag, (unsigned long long)v); }

void transcript(const char* fmt, ...) {
  char buf[1024];
  va_list va; va_start(va, fmt);
  int n = vsnprintf(buf, sizeof buf - 1, fmt, va);
  va_end(va);
  if (n < 0) return;
  if (n >= (int)sizeof buf - 1) n = sizeof buf - 2;
  g_thash = fnv1a(buf, (size_t)n, g_thash);
  g_thash = fnv1a("\n", 1, g_thash);
  g_tlines++;
  if (sim_transcript_fd >= 0) { buf[n] = '\n'; (void)!write(sim_transcript_fd, buf, (size_t)n + 1); }
}

void progress(int opidx, const char* prop, const char* opname) {
  if (!shm) return;
  shm->opidx = opidx;
  snprintf(shm->prop, sizeof shm->prop, "%s", prop);
  snprintf(shm->opname, sizeof shm->opname, "%s", opname ? opname : "");
}

const char* progress_prop(void) { return (shm && shm->prop[0]) ? shm->prop : (g_sc ? g_sc->dflt_prop : "-"); }
const char* progress_opname(void) { return (shm && shm->opname[0]) ? shm->opname : "-"; }
int progress_opidx(void) { return shm ? shm->opidx : -1; }

static void arena_error_default(const char* kind, void* p) {
  (void)p;
  char cls[128];
  snprintf(cls, sizeof cls, "%s:alloc:%s:%s", progress_prop(), kind, progress_opname());
  viol(progress_prop(), cls, "allocator ledger: %s during op %d (%s)", kind, progress_opidx(), progress_opname());
}

void note_other(const char* prop, const char* cls) {
  size_t l = strlen(g_other);
  if (strstr(g_other, cls)) return;
  snprintf(g_other + l, sizeof g_other - l, "%s%s|%s", l ? ";" : "", prop, cls);
}

static void sanitize(char* s) {
  for (; *s; s++) if (*s == ' ' || *s == '\n' || *s == '\t') *s = '_';
}

static size_t fmt_stats(char* out, size_t cap) {
  size_t n = 0;
  out[0] = 0;
  for (int i = 0; i < g_nstat && n + 64 < cap; i++)
    n += (size_t)snprintf(out + n, cap - n, "%s%s:%ld", i ? "," : "", g_stat[i].k, g_stat[i].v);
  return n;
}

static void flush_arena_stats(void) {
  stat_add("alloc.mallocs", arena_stats.mallocs);
  stat_add("alloc.callocs", arena_stats.callocs);
  stat_add("alloc.reallocs", arena_stats.reallocs);
  stat_add("alloc.frees", arena_stats.frees);
  stat_add("alloc.realloc_moved", arena_stats.moves);
  stat_add("alloc.realloc_inplace", arena_stats.inplace);
  stat_add("alloc.reuses", arena_stats.reuses);
}

static void emit_run_line(const char* verdict, const char* prop, const char* cls, const char* detail) {
  static char line[8192];
  char st[4096];
  arena_off();
  flush_arena_stats();
  sched_stats_flush();
  fmt_stats(st, sizeof st);
  int n = snprintf(line, sizeof line,
    "RUN run=%llu verdict=%s hash=%016llx th=%016llx tl=%ld nt=%d ops=%d op=%d prop=%s class=%s other=%s st=%s detail=%s\n",
    (unsigned long long)g_plan.run, verdict, (unsigned long long)g_hash, (unsigned long long)g_thash, g_tlines, g_nontrivial,
    g_plan.nops, shm ? shm->opidx : -1, prop[0] ? prop : "-", cls[0] ? cls : "-",
    g_other[0] ? g_other : "-", st[0] ? st : "-", detail[0] ? detail : "-");
  if (n >= (int)sizeof line) { n = sizeof line - 1; line[n-1] = '\n'; }
  if (shm) shm->phase = 2;
  (void)!write(1, line, (size_t)n);
}

void viol(const char* prop, const char* cls, const char* fmt, ...) {
  char detail[1024], c[256];
  va_list va; va_start(va, fmt);
  vsnprintf(detail, sizeof detail, fmt, va);
  va_end(va);
  sanitize(detail);
  snprintf(c, sizeof c, "%s", cls);
  sanitize(c);
  if (sim_verbose) fprintf(stderr, "VIOL %s %s %s\n", prop, c, detail);
  emit_run_line("viol", prop, c, detail);
  _exit(10);
}

/* ------------------------------------------------------ child execution */
#define STACK_BASE  ((void*)0x1F0000000000ULL)
#define STACK_SIZE  (8UL << 20)    /* the default main-thread stack limit */

void glue_run(const Scenario* sc, const Plan* p);   /* glue.c (Cello side) */

static void* boot_thread(void* arg) {
  (void)arg;
  int place   = (int)plan_env(&g_plan, "alloc.place", PLACE_BUMP);
  int repol   = (int)plan_env(&g_plan, "alloc.realloc", REALLOC_MOVE);
  int advmod  = (int)plan_env(&g_plan, "alloc.advmod", 0);
  arena_on_error = arena_error_default;
  arena_on(g_plan.seed, g_plan.run, place, repol, advmod);
  sched_init(&g_plan);
  glue_run(g_sc, &g_plan);
  emit_run_line("ok", "", "", "");
  _exit(0);
  return NULL;
}

static int g_timeout = 20;

static void child_run(void) {
  struct rlimit rl = { 0, 0 };
  setrlimit(RLIMIT_CORE, &rl);
  setpgid(0, 0);                       /* so that the parent can reap anything this run forks */
  { /* simulated threads never run in parallel: keep them on one core so that baton hand-offs are cheap */
    cpu_set_t cs; long nc = sysconf(_SC_NPROCESSORS_ONLN); if (nc < 1) nc = 1;
    CPU_ZERO(&cs); CPU_SET((int)(getpid() % nc), &cs); sched_setaffinity(0, sizeof cs, &cs); }
  alarm((unsigned)g_timeout);
  void* stk = mmap(STACK_BASE, STACK_SIZE, PROT_READ | PROT_WRITE,
                   MAP_PRIVATE | MAP_ANONYMOUS | MAP_NORESERVE | MAP_FIXED_NOREPLACE, -1, 0);
  if (stk != STACK_BASE) { fprintf(stderr, "cellosim: cannot map stack: %s\n", strerror(errno)); _exit(2); }
  pthread_attr_t at;
  pthread_attr_init(&at);
  pthread_attr_setstack(&at, stk, STACK_SIZE);
  pthread_t th;
  if (shm) { shm->phase = 1; shm->opidx = -1; shm->hash = FNV_INIT;
             snprintf(shm->prop, sizeof shm->prop, "%s", g_sc->dflt_prop); shm->opname[0] = 0; }
  int rc = __real_pthread_create(&th, &at, boot_thread, NULL);
  if (rc) { fprintf(stderr, "cellosim: pthread_create: %s\n", strerror(rc)); _exit(2); }
  __real_pthread_join(th, NULL);
  _exit(2);
}

static const char* signame(int s) {
  switch (s) {
    case SIGSEGV: return "SIGSEGV"; case SIGFPE: return "SIGFPE"; case SIGABRT: return "SIGABRT";
    case SIGBUS: return "SIGBUS"; case SIGILL: return "SIGILL"; case SIGALRM: return "TIMEOUT";
    case SIGKILL: return "SIGKILL"; default: return "SIG";
  }
}

/* runs g_plan in a forked child; returns 0 ok, 1 violation/crash, 2 infrastructure */
static int run_one(void) {
  fflush(stdout);
  shm->phase = 0;
  pid_t pid = fork();
  if (pid < 0) { perror("fork"); return 2; }
  if (pid == 0) { child_run(); _exit(2); }
  int st = 0;
  while (waitpid(pid, &st, 0) < 0 && errno == EINTR) {}
  kill(-pid, SIGKILL);                 /* stragglers forked by the run (uncaught-exception children) */
  if (WIFEXITED(st) && WEXITSTATUS(st) == 0 && shm->phase == 2) return 0;
  if (WIFEXITED(st) && WEXITSTATUS(st) == 10 && shm->phase == 2) return 1;
  if (WIFEXITED(st) && WEXITSTATUS(st) == 2) {
    printf("RUN run=%llu verdict=infra hash=0 nt=0 ops=%d op=%d prop=- class=infra other=- st=- detail=child_exit_2\n",
           (unsigned long long)g_plan.run, g_plan.nops, shm->opidx);
    fflush(stdout);
    return 2;
  }
  char cls[160], what[64];
  if (WIFSIGNALED(st)) snprintf(what, sizeof what, "%s", signame(WTERMSIG(st)));
  else if (WEXITSTATUS(st) == 77) snprintf(what, sizeof what, "SANITIZER");
  else if (WEXITSTATUS(st) == 1) snprintf(what, sizeof what, "UNCAUGHT-OR-EXIT1");
  else if (WEXITSTATUS(st) == 12) snprintf(what, sizeof what, "RAN-WITHOUT-BATON");
  else snprintf(what, sizeof what, "EXIT%d", WEXITSTATUS(st));
  const char* prop = shm->prop[0] ? shm->prop : g_sc->dflt_prop;
  snprintf(cls, sizeof cls, "%s:crash:%s:%s", prop, what, shm->opname[0] ? shm->opname : "-");
  printf("RUN run=%llu verdict=crash hash=%016llx nt=0 ops=%d op=%d prop=%s class=%s other=- st=- detail=%s\n",
         (unsigned long long)g_plan.run, (unsigned long long)shm->hash, g_plan.nops, shm->opidx,
         prop, cls, shm->phase == 2 ? "after-report" : "-");
  fflush(stdout);
  return 1;
}

static const char* arg_get(int argc, char** argv, const char* key, const char* dflt) {
  size_t kl = strlen(key);
  for (int i = 2; i < argc; i++)
    if (!strncmp(argv[i], key, kl) && argv[i][kl] == '=') return argv[i] + kl + 1;
  return dflt;
}

static void apply_env_overrides(int argc, char** argv, Plan* p) {
  for (int i = 2; i < argc; i++) {
    if (!strncmp(argv[i], "env.", 4)) {
      char k[64]; const char* eq = strchr(argv[i], '=');
      if (!eq) continue;
      size_t n = (size_t)(eq - (argv[i] + 4));
      if (n >= sizeof k) continue;
      memcpy(k, argv[i] + 4, n); k[n] = 0;
      plan_env_set(p, k, strtoll(eq + 1, NULL, 10));
    }
  }
}

static void generate(const Scenario* sc, uint64_t seed, uint64_t run, int argc, char** argv) {
  memset(&g_plan, 0, sizeof g_plan);
  snprintf(g_plan.scen, sizeof g_plan.scen, "%s", sc->name);
  g_plan.seed = seed; g_plan.run = run;
  /* overrides given on the command line are visible to the generator (e.g. focus) and
   * are part of the printed plan, so a replay never needs them again */
  apply_env_overrides(argc, argv, &g_plan);
  Rng r; rng_seed(&r, seed, run, STREAM_PLAN);
  sc->generate(&g_plan, &r);
}

#if defined(__has_feature)
# if __has_feature(address_sanitizer)
#  define SIM_ASAN 1
# endif
#endif
#if defined(__SANITIZE_ADDRESS__)
# define SIM_ASAN 1
#endif
#ifdef SIM_ASAN
__attribute__((used, visibility("default"))) const char* __asan_default_options(void) {
  return "exitcode=77:detect_leaks=0:abort_on_error=0:allocator_may_return_null=1:detect_stack_use_after_return=0:handle_segv=0:handle_sigfpe=0:handle_abort=0:handle_sigbus=0";
}
__attribute__((used, visibility("default"))) const char* __ubsan_default_options(void) {
  return "exitcode=77:print_stacktrace=0:halt_on_error=1";
}
#endif

int main(int argc, char** argv) {
  if (argc < 2) {
    fprintf(stderr, "usage: cellosim run|gen|replay|list key=value...\n");
    return 2;
  }
  const char* mode = argv[1];
  sim_verbose = atoi(arg_get(argc, argv, "verbose", getenv("SIM_TRACE") ? "1" : "0"));
  g_timeout = atoi(arg_get(argc, argv, "timeout", "20"));
  const char* tp = arg_get(argc, argv, "transcript", NULL);
  if (tp) sim_transcript_fd = atoi(tp);
  shm = mmap(NULL, 4096, PROT_READ | PROT_WRITE, MAP_SHARED | MAP_ANONYMOUS, -1, 0);
  if (shm == MAP_FAILED) { perror("mmap"); return 2; }
  setvbuf(stdout, NULL, _IOLBF, 0);

  if (!strcmp(mode, "list")) {
    for (int i = 0; all_scen[i]; i++) {
      printf("%s:", all_scen[i]->name);
      for (int k = 0; k < all_scen[i]->nopinfo; k++) printf(" %s/%d", all_scen[i]->ops[k].name, all_scen[i]->ops[k].nargs);
      printf("\n");
    }
    return 0;
  }
  if (!strcmp(mode, "gen") || !strcmp(mode, "run")) {
    const Scenario* sc = scenario_find(arg_get(argc, argv, "scen", ""));
    if (!sc) { fprintf(stderr, "cellosim: scen=? unknown\n"); return 2; }
    uint64_t seed = strtoull(arg_get(argc, argv, "seed", "1"), NULL, 10);
    if (!strcmp(mode, "gen")) {
      uint64_t run = strtoull(arg_get(argc, argv, "run", "0"), NULL, 10);
      generate(sc, seed, run, argc, argv);
      plan_print(stdout, &g_plan, sc);
      return 0;
    }
    uint64_t first = strtoull(arg_get(argc, argv, "first", "0"), NULL, 10);
    uint64_t count = strtoull(arg_get(argc, argv, "count", "1"), NULL, 10);
    uint64_t step  = strtoull(arg_get(argc, argv, "step", "1"), NULL, 10);
    int bad = 0;
    g_sc = sc;
    for (uint64_t i = 0; i < count; i++) {
      generate(sc, seed, first + i * step, argc, argv);
      int rc = run_one();
      if (rc == 2) return 2;
      if (rc) bad = 1;
    }
    return bad ? 1 : 0;
  }
  if (!strcmp(mode, "replay")) {
    const char* path = arg_get(argc, argv, "file", NULL);
    if (!path) { fprintf(stderr, "cellosim: replay file=<path>\n"); return 2; }
    FILE* f = !strcmp(path, "-") ? stdin : fopen(path, "r");
    if (!f) { perror(path); return 2; }
    const Scenario* sc = NULL;
    if (plan_parse(f, &g_plan, &sc)) { fprintf(stderr, "cellosim: cannot parse plan\n"); return 2; }
    if (f != stdin) fclose(f);
    apply_env_overrides(argc, argv, &g_plan);
    g_sc = sc;
    if (atoi(arg_get(argc, argv, "print", "0"))) plan_print(stderr, &g_plan, sc);
    int rc = run_one();
    return rc;
  }
  fprintf(stderr, "cellosim: unknown mode %s\n", mode);
  return 2;
}
