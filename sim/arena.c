/* Deterministic allocator behind --wrap=malloc,calloc,realloc,free.
 * Fixed-address arena, seeded placement / move policies, fill patterns, block
 * ledger.  Only active in the forked child between arena_on() and arena_off().
 * Only one simulated thread runs at a time (baton scheduler), so no locking. */
#define _GNU_SOURCE
#include "sim.h"
#include <string.h>
#include <stdio.h>
#include <unistd.h>
#include <errno.h>
#include <sys/mman.h>

void* __real_malloc(size_t);
void* __real_calloc(size_t, size_t);
void* __real_realloc(void*, size_t);
void  __real_free(void*);

#if defined(__has_feature)
# if __has_feature(address_sanitizer)
#  define SIM_ASAN 1
# endif
#endif
#if defined(__SANITIZE_ADDRESS__)
# define SIM_ASAN 1
#endif
#ifdef SIM_ASAN
void __asan_poison_memory_region(void const volatile*, size_t);
void __asan_unpoison_memory_region(void const volatile*, size_t);
# define POISON(p, n)   __asan_poison_memory_region((p), (n))
# define UNPOISON(p, n) __asan_unpoison_memory_region((p), (n))
# define NOASAN __attribute__((no_sanitize("address")))
#else
# define POISON(p, n)   ((void)0)
# define UNPOISON(p, n) ((void)0)
# define NOASAN
#endif

#define GEN_BASE   0x200000000000ULL          /* general zone */
#define GEN_SIZE   (256ULL << 30)
#define ADV_BASE   0x300000000000ULL          /* strided zone */
#define ADV_SIZE   (16ULL << 40)
#define REDZONE    16
#define ADV_MAXSZ  512

struct ArenaStats arena_stats;
void (*arena_on_free)(void* p, size_t size, int tag);
void (*arena_on_error)(const char* kind, void* p);
void (*arena_yield)(int site);
long arena_fail_after;

static int      g_on;
static int      g_place, g_repol;
static Rng      g_rng;
static uint64_t g_bump;          /* next free offset in general zone */
static uint64_t g_adv_stride;    /* bytes; 0 = adversarial placement off */
static uint64_t g_adv_next;      /* next stride index */
static uint64_t g_adv_off;       /* offset of user pointer inside a stride cell */
static int      g_mapped;

typedef struct {
  uintptr_t addr;      /* user pointer; 0 = empty slot */
  uint32_t  size;      /* requested size */
  uint32_t  cap;       /* usable capacity */
  uint32_t  gen;
  uint8_t   state;
  uint8_t   tag;
  uint8_t   adv;
} Blk;

#define LEDGER_BITS 22
#define LEDGER_N (1u << LEDGER_BITS)
static Blk* g_ledger;            /* mmap'ed */
static uint32_t* g_order;        /* ledger indices in creation order */
static uintptr_t* g_genaddr;     /* user addresses of general-zone blocks, ascending (bump allocation order) */
static long g_ngen;
static long g_nblk;
static long g_live, g_live_bytes;

/* free lists by capacity class (multiples of 16 up to 4096) for LIFO reuse */
#define NCLASS 257
#define FREESTACK 4096
static uintptr_t* g_free[NCLASS];
static int g_nfree[NCLASS];
static uintptr_t* g_adv_free; static int g_adv_nfree;
#define NBIG 64
static struct { uintptr_t a; uint32_t cap; } g_big[NBIG]; static int g_nbig;   /* freed blocks above the class range */

static void die(const char* m) { (void)!write(2, m, strlen(m)); _exit(2); }

static Blk* led_find(uintptr_t a, int create) {
  uint64_t h = (a >> 4) * 0x9E3779B97F4A7C15ULL;
  uint32_t i = (uint32_t)(h >> (64 - LEDGER_BITS));
  for (uint32_t n = 0; n < LEDGER_N; n++, i = (i + 1) & (LEDGER_N - 1)) {
    if (g_ledger[i].addr == a) return &g_ledger[i];
    if (g_ledger[i].addr == 0) {
      if (!create) return NULL;
      if (++g_nblk > (long)(LEDGER_N * 3 / 4)) die("cellosim: ledger full\n");
      g_ledger[i].addr = a;
      g_order[g_nblk - 1] = i;
      return &g_ledger[i];
    }
  }
  return NULL;
}

static void map_once(void) {
  if (g_mapped) return;
  int fl = MAP_PRIVATE | MAP_ANONYMOUS | MAP_NORESERVE | MAP_FIXED_NOREPLACE;
  if (mmap((void*)GEN_BASE, GEN_SIZE, PROT_READ | PROT_WRITE, fl, -1, 0) != (void*)GEN_BASE) die("cellosim: cannot map general zone\n");
  if (mmap((void*)ADV_BASE, ADV_SIZE, PROT_READ | PROT_WRITE, fl, -1, 0) != (void*)ADV_BASE) die("cellosim: cannot map strided zone\n");
  g_ledger = mmap(NULL, sizeof(Blk) * LEDGER_N, PROT_READ | PROT_WRITE, MAP_PRIVATE | MAP_ANONYMOUS | MAP_NORESERVE, -1, 0);
  if (g_ledger == MAP_FAILED) die("cellosim: cannot map ledger\n");
  g_order = mmap(NULL, sizeof(uint32_t) * LEDGER_N, PROT_READ | PROT_WRITE, MAP_PRIVATE | MAP_ANONYMOUS | MAP_NORESERVE, -1, 0);
  if (g_order == MAP_FAILED) die("cellosim: cannot map ledger order\n");
  g_genaddr = mmap(NULL, sizeof(uintptr_t) * LEDGER_N, PROT_READ | PROT_WRITE, MAP_PRIVATE | MAP_ANONYMOUS | MAP_NORESERVE, -1, 0);
  if (g_genaddr == MAP_FAILED) die("cellosim: cannot map address index\n");
  size_t fsz = sizeof(uintptr_t) * FREESTACK * (NCLASS + 1);
  uintptr_t* f = mmap(NULL, fsz, PROT_READ | PROT_WRITE, MAP_PRIVATE | MAP_ANONYMOUS | MAP_NORESERVE, -1, 0);
  if (f == MAP_FAILED) die("cellosim: cannot map free stacks\n");
  for (int i = 0; i < NCLASS; i++) g_free[i] = f + (size_t)i * FREESTACK;
  g_adv_free = f + (size_t)NCLASS * FREESTACK;
  g_mapped = 1;
}

void arena_on(uint64_t seed, uint64_t run, int place, int reallocpol, int advmod) {
  map_once();
  rng_seed(&g_rng, seed, run, STREAM_ALLOC);
  g_place = place; g_repol = reallocpol;
  g_bump = 4096;
  g_adv_stride = 0;
  if (place == PLACE_ADVERSARIAL) {
    /* every small calloc'ed block gets (addr>>3) == c (mod M); M is a product of the
     * registry/table primes, so all such blocks share one home slot at every size dividing M */
    static const uint64_t mods[] = { 5ULL*11*23*53, 5ULL*11*23*53*101, 5ULL*11*23, 5ULL*11*23*53*101*197 };
    uint64_t M = mods[(advmod >= 0 && advmod < 4) ? advmod : 0];
    g_adv_stride = M * 8;
    uint64_t pick = rng_below(&g_rng, 4);
    uint64_t c = pick == 0 ? M - 1 : pick == 1 ? M - 2 : pick == 2 ? 0 : rng_below(&g_rng, 1u << 20) % M;
    g_adv_off = c * 8;                 /* ADV_BASE is a multiple of 8*M? make it so below */
    g_adv_next = 1;
  }
  g_on = 1;
}
void arena_off(void) { g_on = 0; }
int  arena_active(void) { return g_on; }

int arena_owns(const void* p) {
  uintptr_t a = (uintptr_t)p;
  return (a >= GEN_BASE && a < GEN_BASE + GEN_SIZE) || (a >= ADV_BASE && a < ADV_BASE + ADV_SIZE);
}

static size_t cap_for(size_t n) { size_t c = (n + 15) & ~(size_t)15; return c ? c : 16; }

NOASAN static int still_dd(const unsigned char* p, size_t n) {
  for (size_t i = 0; i < n; i++) if (p[i] != 0xDD) return 0;
  return 1;
}

static void* take_block(size_t n, int zero, int small_calloc) {
  size_t cap = cap_for(n);
  uintptr_t a = 0;
  Blk* b = NULL;
  int reuse_ok = (g_place == PLACE_LIFO) || (g_place == PLACE_ADVERSARIAL) ||
                 (g_place == PLACE_SEEDED && rng_chance(&g_rng, 1, 2));
  if (g_adv_stride && small_calloc && cap <= ADV_MAXSZ) {
    if (reuse_ok && g_adv_nfree > 0 && rng_chance(&g_rng, 1, 2)) {
      a = g_adv_free[--g_adv_nfree];
      arena_stats.reuses++;
    } else {
      /* cell k: user address == ADV_BASE_aligned + k*stride + off */
      uint64_t base = (ADV_BASE / g_adv_stride + 1) * g_adv_stride;
      a = base + g_adv_next * g_adv_stride + g_adv_off;
      g_adv_next++;
      if (a + ADV_MAXSZ + REDZONE >= ADV_BASE + ADV_SIZE) {
        /* strided zone exhausted: fall back to general placement */
        a = 0;
      }
    }
    if (a) {
      b = led_find(a, 1);
      b->adv = 1; b->cap = ADV_MAXSZ;
    }
  }
  if (!a) {
    int cls = (int)(cap / 16);
    int bigi = -1;
    if (reuse_ok && cls >= NCLASS) for (int k = g_nbig - 1; k >= 0; k--) if (g_big[k].cap == cap) { bigi = k; break; }
    if (reuse_ok && cls < NCLASS && g_nfree[cls] > 0) {
      a = g_free[cls][--g_nfree[cls]];
      arena_stats.reuses++;
      b = led_find(a, 0);
    } else if (bigi >= 0) {
      a = g_big[bigi].a; g_big[bigi] = g_big[--g_nbig];
      arena_stats.reuses++;
      b = led_find(a, 0);
    } else {
      a = GEN_BASE + g_bump + REDZONE;
      g_bump += cap + 2 * REDZONE;
      if (g_bump + (1 << 20) > GEN_SIZE) die("cellosim: general zone exhausted\n");
      b = led_find(a, 1);
      b->adv = 0; b->cap = (uint32_t)cap;
      g_genaddr[g_ngen++] = a;
    }
  }
  if (b->state == BLK_FREED) {
    UNPOISON((void*)a, b->cap);
    if (!still_dd((unsigned char*)a, b->cap) && arena_on_error) arena_on_error("write-after-free", (void*)a);
  }
  b->size = (uint32_t)n; b->state = BLK_LIVE; b->tag = TAG_NONE; b->gen++;
  g_live++; g_live_bytes += (long)n;
  UNPOISON((void*)a, b->cap);
  memset((void*)a, zero ? 0 : 0xA5, b->cap);
  POISON((char*)a + n, b->cap - n);
  return (void*)a;
}

static void release_block(Blk* b) {
  uintptr_t a = b->addr;
  if (arena_on_free) arena_on_free((void*)a, b->size, b->tag);
  UNPOISON((void*)a, b->cap);
  memset((void*)a, 0xDD, b->cap);
  POISON((void*)a, b->cap);
  g_live--; g_live_bytes -= (long)b->size;
  b->state = BLK_FREED;
  if (g_place == PLACE_QUARANTINE || g_place == PLACE_BUMP) return;
  if (b->adv) { if (g_adv_nfree < FREESTACK) g_adv_free[g_adv_nfree++] = a; return; }
  int cls = (int)(b->cap / 16);
  if (cls < NCLASS) { if (g_nfree[cls] < FREESTACK) g_free[cls][g_nfree[cls]++] = a; }
  else if (g_nbig < NBIG) { g_big[g_nbig].a = a; g_big[g_nbig].cap = b->cap; g_nbig++; }
}

static int fail_now(void) {
  if (arena_fail_after > 0 && --arena_fail_after == 0) { errno = ENOMEM; return 1; }
  return 0;
}

void* __wrap_malloc(size_t n) {
  if (!g_on) return __real_malloc(n);
  if (arena_yield) arena_yield(SITE_MALLOC);
  if (fail_now()) return NULL;
  arena_stats.mallocs++;
  return take_block(n, 0, 0);
}

void* __wrap_calloc(size_t m, size_t n) {
  if (!g_on) return __real_calloc(m, n);
  if (arena_yield) arena_yield(SITE_MALLOC);
  if (fail_now()) return NULL;
  arena_stats.callocs++;
  size_t t = m * n;
  return take_block(t, 1, m == 1);
}

void __wrap_free(void* p) {
  if (!p) return;
  if (!arena_owns(p)) {
    arena_stats.foreign_frees++;
    /* while the arena is on every block the library may legitimately free is ours */
    if (g_on && arena_on_error) { arena_on_error("free-nonheap", p); return; }
    __real_free(p);
    return;
  }
  if (g_on && arena_yield) arena_yield(SITE_FREE);
  Blk* b = led_find((uintptr_t)p, 0);
  if (!b || b->state == BLK_UNKNOWN) { if (arena_on_error) arena_on_error("free-unknown", p); return; }
  if (b->state == BLK_FREED) { if (arena_on_error) arena_on_error("double-free", p); return; }
  arena_stats.frees++;
  release_block(b);
}

void* __wrap_realloc(void* p, size_t n) {
  if (!p) {
    if (!g_on) return __real_realloc(NULL, n);
    if (arena_yield) arena_yield(SITE_MALLOC);
    if (fail_now()) return NULL;
    arena_stats.reallocs++;
    return take_block(n, 0, 0);
  }
  if (!arena_owns(p)) {
    if (g_on && arena_on_error) { arena_on_error("realloc-nonheap", p); return NULL; }
    return __real_realloc(p, n);
  }
  if (g_on && arena_yield) arena_yield(SITE_MALLOC);
  Blk* b = led_find((uintptr_t)p, 0);
  if (!b || b->state != BLK_LIVE) {
    if (arena_on_error) arena_on_error(b && b->state == BLK_FREED ? "realloc-freed" : "realloc-unknown", p);
    return NULL;
  }
  if (fail_now()) return NULL;
  arena_stats.reallocs++;
  if (n == 0) { /* glibc: frees and returns NULL */
    arena_stats.frees++;
    release_block(b);
    return NULL;
  }
  int inplace = 0;
  if (n <= b->cap) {
    if (g_repol == REALLOC_INPLACE) inplace = 1;
    else if (g_repol == REALLOC_SEEDED) inplace = rng_chance(&g_rng, 1, 2);
  }
  if (inplace) {
    arena_stats.inplace++;
    size_t old = b->size;
    UNPOISON(p, b->cap);
    if (n > old) memset((char*)p + old, 0xA5, n - old);
    else memset((char*)p + n, 0xDD, old - n);
    g_live_bytes += (long)n - (long)old;
    b->size = (uint32_t)n;
    POISON((char*)p + n, b->cap - n);
    return p;
  }
  arena_stats.moves++;
  uint8_t tag = b->tag;
  size_t old = b->size;
  void* q = take_block(n, 0, 0);
  /* take_block may have grown the ledger but never moves entries, so b stays valid */
  memcpy(q, p, old < n ? old : n);
  Blk* nb = led_find((uintptr_t)q, 0);
  nb->tag = tag;
  release_block(b);
  return q;
}

int arena_state(const void* p) {
  if (!g_mapped || !arena_owns(p)) return BLK_UNKNOWN;
  Blk* b = led_find((uintptr_t)p, 0);
  return b ? b->state : BLK_UNKNOWN;
}
size_t arena_block_size(const void* p) {
  if (!g_mapped || !arena_owns(p)) return 0;
  Blk* b = led_find((uintptr_t)p, 0);
  return (b && b->state == BLK_LIVE) ? b->size : 0;
}
long arena_gen(const void* p) {
  if (!g_mapped || !arena_owns(p)) return 0;
  Blk* b = led_find((uintptr_t)p, 0);
  return b ? (long)b->gen : 0;
}
void arena_tag(void* p, int tag) {
  if (!g_mapped || !arena_owns(p)) return;
  Blk* b = led_find((uintptr_t)p, 0);
  if (b) b->tag = (uint8_t)tag;
}
int arena_get_tag(const void* p) {
  if (!g_mapped || !arena_owns(p)) return TAG_NONE;
  Blk* b = led_find((uintptr_t)p, 0);
  return b ? b->tag : TAG_NONE;
}
long arena_live_count(void) { return g_live; }
long arena_live_bytes(void) { return g_live_bytes; }

int arena_find(const void* p, void** start, size_t* size, int* state) {
  /* the block (live or freed) whose capacity covers p */
  if (!g_mapped || !arena_owns(p)) return 0;
  uintptr_t a = (uintptr_t)p;
  Blk* b = NULL;
  if (a >= GEN_BASE && a < GEN_BASE + GEN_SIZE) {
    long lo = 0, hi = g_ngen - 1, best = -1;
    while (lo <= hi) { long mid = (lo + hi) / 2; if (g_genaddr[mid] <= a) { best = mid; lo = mid + 1; } else hi = mid - 1; }
    if (best < 0) return 0;
    b = led_find(g_genaddr[best], 0);
  } else if (g_adv_stride) {
    uint64_t base = (ADV_BASE / g_adv_stride + 1) * g_adv_stride;
    if (a < base) return 0;
    uint64_t k = (a - base) / g_adv_stride;
    b = led_find(base + k * g_adv_stride + g_adv_off, 0);
  }
  if (!b || a < b->addr || a >= b->addr + (b->cap ? b->cap : 1)) return 0;
  if (start) *start = (void*)b->addr;
  if (size) *size = b->size;
  if (state) *state = b->state;
  return 1;
}

void arena_foreach_live(arena_iter_fn fn, void* ud) {
  if (!g_mapped) return;
  for (long k = 0; k < g_nblk; k++) {
    Blk* b = &g_ledger[g_order[k]];
    if (b->addr && b->state == BLK_LIVE) fn((void*)b->addr, b->size, b->tag, ud);
  }
}

void* harness_alloc(size_t n) {
  /* harness-side memory the collector never scans and the ledger never sees */
  void* p = mmap(NULL, (n + 4095) & ~(size_t)4095, PROT_READ | PROT_WRITE, MAP_PRIVATE | MAP_ANONYMOUS, -1, 0);
  if (p == MAP_FAILED) die("cellosim: harness_alloc failed\n");
  return p;
}
