/* Build flavour "fine": /repo's objects are compiled with -fsanitize=thread, but instead of the ThreadSanitizer runtime
 * these stubs are linked: every load and store of non-stack memory in the library becomes a scheduling point of the baton
 * scheduler, so interleavings are decided at memory-access granularity (still deterministically, from the plan). */
#include "sim.h"
#include <stdint.h>

#define SITE_MEM 110
extern void* sim_last_addr;
extern __thread int sim_in_stack_scan;
static inline void acc(void* p) {
  uintptr_t a = (uintptr_t)p;
  /* simulated stacks live at 0x1F0000000000 .. 0x1FFFFFFFFFFF: thread-private, not a scheduling point */
  if ((a >> 40) == 0x1F) return;
  if (sim_in_stack_scan) return;
  sim_last_addr = p;
  sim_yield(SITE_MEM);
}
void __tsan_init(void) {}
void __tsan_func_entry(void* pc) { (void)pc; }
void __tsan_func_exit(void) {}
void __tsan_read1(void* p) { acc(p); }  void __tsan_read2(void* p) { acc(p); }  void __tsan_read4(void* p) { acc(p); }
void __tsan_read8(void* p) { acc(p); }  void __tsan_read16(void* p) { acc(p); }
void __tsan_write1(void* p) { acc(p); } void __tsan_write2(void* p) { acc(p); } void __tsan_write4(void* p) { acc(p); }
void __tsan_write8(void* p) { acc(p); } void __tsan_write16(void* p) { acc(p); }
void __tsan_unaligned_read2(void* p) { acc(p); }  void __tsan_unaligned_read4(void* p) { acc(p); }
void __tsan_unaligned_read8(void* p) { acc(p); }  void __tsan_unaligned_read16(void* p) { acc(p); }
void __tsan_unaligned_write2(void* p) { acc(p); } void __tsan_unaligned_write4(void* p) { acc(p); }
void __tsan_unaligned_write8(void* p) { acc(p); } void __tsan_unaligned_write16(void* p) { acc(p); }
void __tsan_read_range(void* p, long n) { (void)n; acc(p); }
void __tsan_write_range(void* p, long n) { (void)n; acc(p); }
void __tsan_vptr_update(void** a, void* b) { (void)a; (void)b; }
void __tsan_vptr_read(void** a) { (void)a; }
void __tsan_read1_pc(void* p, void* pc) { (void)pc; acc(p); } void __tsan_read2_pc(void* p, void* pc) { (void)pc; acc(p); }
void __tsan_read4_pc(void* p, void* pc) { (void)pc; acc(p); } void __tsan_read8_pc(void* p, void* pc) { (void)pc; acc(p); }
void __tsan_write1_pc(void* p, void* pc) { (void)pc; acc(p); } void __tsan_write2_pc(void* p, void* pc) { (void)pc; acc(p); }
void __tsan_write4_pc(void* p, void* pc) { (void)pc; acc(p); } void __tsan_write8_pc(void* p, void* pc) { (void)pc; acc(p); }
