/* placeholder: in-memory file layer (filled in with the files engine) */
#define _GNU_SOURCE
#include "sim.h"
#include <stdio.h>
FILE* __real_fopen(const char*, const char*);
int   __real_fclose(FILE*);
struct VfsStats vfs_stats;
void vfs_reset(void) {}
FILE* __wrap_fopen(const char* path, const char* mode) { return __real_fopen(path, mode); }
int   __wrap_fclose(FILE* f) { return __real_fclose(f); }
