/* In-memory file layer behind --wrap=fopen,fclose (+ pass-through guards on the stdio
 * calls File.c makes).  Streams are real glibc FILE objects created by fopencookie, so
 * buffering, fseek/ftell/feof, vfprintf/vfscanf run unmodified; only the backing store
 * and the faults are simulated.  Faults are armed per operation by the files engine. */
#define _GNU_SOURCE
#include "sim.h"
#include "vfs.h"
#include <stdio.h>
#include <stdlib.h>
#include <string.h>
#include <errno.h>
#include <sys/types.h>

FILE* __real_fopen(const char*, const char*);
int   __real_fclose(FILE*);
size_t __real_fread(void*, size_t, size_t, FILE*);
size_t __real_fwrite(const void*, size_t, size_t, FILE*);
int   __real_fseek(FILE*, long, int);
long  __real_ftell(FILE*);
int   __real_fflush(FILE*);
int   __real_feof(FILE*);
int   __real_vfprintf(FILE*, const char*, va_list);
int   __real_vfscanf(FILE*, const char*, va_list);

struct VfsStats vfs_stats;
int vfs_active;

typedef struct { char name[32]; unsigned char* data; size_t size; int exists; int opens; } MFile;
typedef struct { FILE* fp; int file; size_t pos; int append, canread, canwrite; int state; /* 0 free 1 open 2 closed */ int closes; } Stream;

static MFile   MF[VFS_NFILES];
static Stream  ST[VFS_NSTREAMS];
static int     g_nst;

/* armed fault: the k-th matching callback from now fails */
static int g_fault_kind, g_fault_countdown, g_fault_fired;
void vfs_arm(int kind, int k) { g_fault_kind = kind; g_fault_countdown = k < 1 ? 1 : k; g_fault_fired = 0; }
int  vfs_disarm(void) { int f = g_fault_fired; g_fault_kind = 0; g_fault_countdown = 0; g_fault_fired = 0; return f; }

static int fire(int kind) {
  if (g_fault_kind != kind) return 0;
  if (--g_fault_countdown > 0) return 0;
  g_fault_kind = 0; g_fault_fired = 1; vfs_stats.faults_fired++;
  return 1;
}

void vfs_reset(void) {
  memset(&vfs_stats, 0, sizeof vfs_stats);
  for (int i = 0; i < VFS_NFILES; i++) { if (!MF[i].data) MF[i].data = harness_alloc(VFS_FILECAP); MF[i].size = 0; MF[i].exists = 0; MF[i].opens = 0; snprintf(MF[i].name, sizeof MF[i].name, "vfs%d.bin", i); }
  memset(ST, 0, sizeof ST); g_nst = 0;
  vfs_active = 1;
}
const char* vfs_name(int i) { return MF[i % VFS_NFILES].name; }
size_t vfs_size(int i) { return MF[i % VFS_NFILES].size; }
const unsigned char* vfs_data(int i) { return MF[i % VFS_NFILES].data; }
int vfs_exists(int i) { return MF[i % VFS_NFILES].exists; }
int vfs_open_streams(void) { int n = 0; for (int i = 0; i < g_nst; i++) n += ST[i].state == 1; return n; }

static Stream* find_stream(FILE* fp) {
  for (int i = g_nst - 1; i >= 0; i--) if (ST[i].fp == fp) return &ST[i];
  return NULL;
}

static ssize_t ck_read(void* c, char* buf, size_t n) {
  Stream* s = c; MFile* f = &MF[s->file];
  vfs_stats.reads++;
  if (fire(VFS_F_READ_ERR)) { errno = EIO; return -1; }
  size_t avail = s->pos < f->size ? f->size - s->pos : 0;
  if (n > avail) n = avail;
  if (n > 1 && fire(VFS_F_SHORT_READ)) n = 1 + n / 3;       /* legal: stdio refills */
  memcpy(buf, f->data + s->pos, n);
  s->pos += n;
  return (ssize_t)n;
}
static ssize_t ck_write(void* c, const char* buf, size_t n) {
  Stream* s = c; MFile* f = &MF[s->file];
  vfs_stats.writes++;
  if (fire(VFS_F_WRITE_EIO)) { errno = EIO; return 0; }
  if (fire(VFS_F_WRITE_ENOSPC)) { errno = ENOSPC; return 0; }
  if (s->append) s->pos = f->size;
  if (s->pos + n > VFS_FILECAP) { errno = ENOSPC; return 0; }
  if (s->pos > f->size) memset(f->data + f->size, 0, s->pos - f->size);
  memcpy(f->data + s->pos, buf, n);
  s->pos += n;
  if (s->pos > f->size) f->size = s->pos;
  return (ssize_t)n;
}
static int ck_seek(void* c, off64_t* off, int whence) {
  Stream* s = c; MFile* f = &MF[s->file];
  vfs_stats.seeks++;
  if (fire(VFS_F_SEEK_ERR)) { errno = EIO; return -1; }
  off64_t base = whence == SEEK_SET ? 0 : whence == SEEK_CUR ? (off64_t)s->pos : (off64_t)f->size;
  off64_t np = base + *off;
  if (np < 0) { errno = EINVAL; return -1; }
  s->pos = (size_t)np;
  *off = np;
  return 0;
}
static int ck_close(void* c) { (void)c; return 0; }

FILE* __wrap_fopen(const char* path, const char* mode) {
  if (!vfs_active) return __real_fopen(path, mode);
  int idx = -1;
  for (int i = 0; i < VFS_NFILES; i++) if (!strcmp(MF[i].name, path)) idx = i;
  if (idx < 0) return __real_fopen(path, mode);
  vfs_stats.opens++;
  if (fire(VFS_F_FOPEN_FAIL)) { vfs_stats.opens--; errno = EMFILE; return NULL; }
  MFile* f = &MF[idx];
  int plus = strchr(mode, '+') != NULL;
  if (g_nst >= VFS_NSTREAMS) { vfs_stats.opens--; errno = EMFILE; return NULL; }
  Stream* s = &ST[g_nst];
  memset(s, 0, sizeof *s);
  s->file = idx;
  switch (mode[0]) {
    case 'r': if (!f->exists) { vfs_stats.opens--; errno = ENOENT; return NULL; } s->canread = 1; s->canwrite = plus; break;
    case 'w': f->exists = 1; f->size = 0; s->canwrite = 1; s->canread = plus; break;
    case 'a': f->exists = 1; s->append = 1; s->canwrite = 1; s->canread = plus; s->pos = f->size; break;
    default: vfs_stats.opens--; errno = EINVAL; return NULL;
  }
  cookie_io_functions_t io = { ck_read, ck_write, ck_seek, ck_close };
  FILE* fp = fopencookie(s, mode, io);
  if (!fp) { vfs_stats.opens--; return NULL; }
  s->fp = fp; s->state = 1;
  g_nst++; f->opens++;
  return fp;
}

int __wrap_fclose(FILE* fp) {
  if (!vfs_active) return __real_fclose(fp);
  if (fp == NULL) { vfs_stats.null_closes++; errno = EBADF; return EOF; }       /* recorded, not executed */
  Stream* s = find_stream(fp);
  if (!s) { vfs_stats.foreign_closes++; return (fp == stdin || fp == stdout || fp == stderr) ? EOF : __real_fclose(fp); }
  if (s->state == 2) { vfs_stats.double_closes++; errno = EBADF; return EOF; }  /* recorded, not executed */
  s->state = 2; s->closes++;
  vfs_stats.closes++;
  MF[s->file].opens--;
  int fail = fire(VFS_F_FCLOSE_FAIL);
  int rc = __real_fclose(fp);          /* flushes through the cookie; the stream is gone afterwards either way */
  if (fail) { errno = EIO; return EOF; }
  return rc;
}

/* guards: a stream the layer knows to be closed must never reach stdio again */
static int stale(FILE* fp, const char* what) {
  if (!vfs_active || !fp) return 0;
  Stream* s = find_stream(fp);
  if (s && s->state == 2) { vfs_stats.use_after_close++; (void)what; return 1; }
  return 0;
}
size_t __wrap_fread(void* p, size_t a, size_t b, FILE* f) { if (vfs_active && !f) { vfs_stats.null_uses++; return 0; } if (stale(f, "fread")) return 0; return __real_fread(p, a, b, f); }
size_t __wrap_fwrite(const void* p, size_t a, size_t b, FILE* f) { if (vfs_active && !f) { vfs_stats.null_uses++; return 0; } if (stale(f, "fwrite")) return 0; return __real_fwrite(p, a, b, f); }
int  __wrap_fseek(FILE* f, long o, int w) { if (vfs_active && !f) { vfs_stats.null_uses++; return -1; } if (stale(f, "fseek")) return -1; return __real_fseek(f, o, w); }
long __wrap_ftell(FILE* f) { if (vfs_active && !f) { vfs_stats.null_uses++; return -1; } if (stale(f, "ftell")) return -1; return __real_ftell(f); }
int  __wrap_fflush(FILE* f) { if (stale(f, "fflush")) return EOF; return __real_fflush(f); }
int  __wrap_feof(FILE* f) { if (vfs_active && !f) { vfs_stats.null_uses++; return 1; } if (stale(f, "feof")) return 1; return __real_feof(f); }
int  __wrap_vfprintf(FILE* f, const char* fmt, va_list va) { if (vfs_active && !f) { vfs_stats.null_uses++; return -1; } if (stale(f, "vfprintf")) return -1; return __real_vfprintf(f, fmt, va); }
int  __wrap_vfscanf(FILE* f, const char* fmt, va_list va) { if (vfs_active && !f) { vfs_stats.null_uses++; return -1; } if (stale(f, "vfscanf")) return -1; return __real_vfscanf(f, fmt, va); }
