/* Scenario engine "files": File streams over the simulated file layer (vfs.c) against a
 * byte-array reference model; open/close/reopen/with/del orders; calls after close; and,
 * in the fault configuration, injected stdio failures at chosen callbacks.  Serves C20. */
#define _GNU_SOURCE
#include "cglue.h"
#include "vfs.h"

enum { F_OPEN, F_CLOSE, F_WRITE, F_READ, F_SEEK, F_TELL, F_EOF, F_FLUSH, F_PRINT, F_SCAN, F_WITH, F_DEL, F_NEWOPEN, F_NOPS };
static const OpInfo OPS[F_NOPS] = {
  [F_OPEN]  = { "open", 3 },     /* fobj file mode */
  [F_CLOSE] = { "close", 1 },    /* fobj */
  [F_WRITE] = { "write", 3 },    /* fobj pattern len */
  [F_READ]  = { "read", 2 },     /* fobj len */
  [F_SEEK]  = { "seek", 3 },     /* fobj off origin */
  [F_TELL]  = { "tell", 1 },
  [F_EOF]   = { "eof", 1 },
  [F_FLUSH] = { "flush", 1 },
  [F_PRINT] = { "print", 3 },    /* fobj fmt val */
  [F_SCAN]  = { "scan", 2 },     /* fobj fmt */
  [F_WITH]  = { "with", 3 },     /* fobj pattern len : a with-block that writes or reads inside */
  [F_DEL]   = { "del", 1 },      /* fobj: delete the File object and make a fresh one */
  [F_NEWOPEN] = { "newopen", 3 },/* fobj file mode: construct a File with (name, mode) */
};

#define NFOBJ 3
#define MAXDATA (3 * 8192 + 64)
enum { M_R, M_W, M_A, M_RP, M_WP, M_NMODES };
static const char* MODES[M_NMODES] = { "r", "w", "a", "r+", "w+" };

typedef struct {
  var obj;            /* the File object (raw heap) */
  int open;           /* model: is a stream open */
  int file;           /* which vfs file */
  int mode;
  size_t pos;         /* model position */
  int eof;            /* model eof flag */
  int lastdir;        /* 0 none, 1 read, 2 write (direction switches need a seek/flush in between) */
  int unknown;        /* after an injected fault: position/handle state no longer modelled */
} FObj;

typedef struct { unsigned char* data; size_t size; int exists; int dirty; } MModel;

static FObj FO[NFOBJ];
static MModel MM[VFS_NFILES];
static int g_faults;      /* fault configuration on */
static int g_opidx;

#define FV(cls, ...) viol("C20", cls, __VA_ARGS__)

static void gen_bytes(unsigned char* b, size_t n, int64_t pat) {
  uint64_t x = (uint64_t)pat * 0x9E3779B97F4A7C15ULL + 1;
  for (size_t i = 0; i < n; i++) { x ^= x << 13; x ^= x >> 7; x ^= x << 17; b[i] = (pat % 3 == 0 && (i % 5) == 0) ? 0 : (unsigned char)(x >> 24); }
}

/* run one File call; returns the exception or NULL */
#define CALL(ex, stmt) do { ex = NULL; try { stmt; } catch (e__) { ex = e__; } } while (0)

static void model_write(FObj* f, const unsigned char* b, size_t n) {
  MModel* m = &MM[f->file];
  if (n == 0) return;
  if (f->mode == M_A) f->pos = m->size;
  if (f->pos + n > VFS_FILECAP) return;
  if (f->pos > m->size) memset(m->data + m->size, 0, f->pos - m->size);
  memcpy(m->data + f->pos, b, n);
  f->pos += n;
  if (f->pos > m->size) m->size = f->pos;
}

static void check_vfs_counters(const char* when) {
  if (vfs_stats.null_closes) FV("C20:closed-file-reached-stdio:fclose", "fclose(NULL) was called (%s): a File that is not open was closed again instead of raising IOError", when);
  if (vfs_stats.double_closes) FV("C20:stream-closed-twice", "the same stream was passed to fclose twice (%s)", when);
  if (vfs_stats.use_after_close) FV("C20:stale-handle-used", "a stream was used after its fclose (%s)", when);
  if (vfs_stats.null_uses) FV("C20:closed-file-reached-stdio:io", "a stdio call received a NULL stream (%s)", when);
  if (vfs_stats.foreign_closes) FV("C20:foreign-stream-closed", "fclose was called on a stream the File layer never opened (%s)", when);
}

static void check_file_content(int file, const char* when) {
  MModel* m = &MM[file];
  if (m->dirty || !m->exists) return;
  /* only meaningful when no stream with unflushed data is open on it */
  for (int i = 0; i < NFOBJ; i++) if (FO[i].open && FO[i].file == file) return;
  if (vfs_size(file) != m->size || memcmp(vfs_data(file), m->data, m->size) != 0)
    FV("C20:stored-bytes-differ", "file %d holds %zu bytes, model %zu, or the bytes differ (%s)", file, vfs_size(file), m->size, when);
}

static int expect_ioerror_if_closed(FObj* f, var ex, const char* what) {
  if (f->open) return 0;
  if (f->unknown) { if (ex && ex isnt IOError) FV("C20:wrong-exception", "%s on a File in an unknown state raised %s", what, exc_name(ex)); return 1; }
  char cls[96];
  if (ex isnt IOError) { snprintf(cls, sizeof cls, "C20:closed-file-no-ioerror:%s", what); FV(cls, "%s on a File that is not open raised %s instead of IOError", what, exc_name(ex)); }
  stat_add("file.op_after_close", 1);
  return 1;
}

/* after an injected fault: the operation may raise IOError (only), the stream position is unknown */
static int fault_relax(FObj* f, var ex, int fired, const char* what) {
  if (!fired) return 0;
  /* which exception an I/O failure maps to is not part of the property (print_to reports a failing vfprintf as FormatError) */
  if (ex && ex isnt IOError && ex isnt FormatError) FV("C20:wrong-exception", "%s with an injected stdio fault raised %s", what, exc_name(ex));
  MM[f->file].dirty = 1;
  f->unknown = 1;
  stat_add("io.fault_fired", 1);
  if (ex) stat_add("io.fault_raised_ioerror", 1);
  return 1;
}

static void do_open(FObj* f, int file, int mode, int via_new, int fault) {
  var volatile ex = NULL;
  MModel* m = &MM[file];
  int was_open = f->open;
  /* one stream per file at a time: two buffered streams on one file see each other's data only after flushes,
   * which is the C library's business, not the property's */
  for (int i = 0; i < NFOBJ; i++) if (&FO[i] != f && (FO[i].open || FO[i].unknown) && FO[i].file == file) return;
  if (fault) vfs_arm(fault, 1);
  if (via_new == 2) {
    /* the constructor run again on the existing object (construct): like sopen, it must close a stream that is still open */
    CALL(ex, construct(f->obj, $S((char*)vfs_name(file)), $S((char*)MODES[mode])));
    stat_add("file.reconstruct", 1);
  } else if (via_new) {
    /* a brand new File object constructed with (name, mode) */
    if (f->open || f->unknown) { var volatile e2 = NULL; CALL(e2, del_raw(f->obj)); f->obj = new_raw(File); f->open = 0; f->unknown = 0; was_open = 0; }
    var old = f->obj;
    var volatile nobj = NULL;
    CALL(ex, nobj = new_raw(File, $S((char*)vfs_name(file)), $S((char*)MODES[mode])));
    if (nobj) { del_raw(old); f->obj = nobj; }
  } else {
    CALL(ex, sopen(f->obj, $S((char*)vfs_name(file)), $S((char*)MODES[mode])));
  }
  int fired = vfs_disarm();
  int should_fail = ((mode == M_R || mode == M_RP) && !m->exists);
  if (was_open) { stat_add("file.reopen", 1); }
  if (fired) {
    /* failing fopen, or failing fclose of the previous stream */
    if (ex && ex isnt IOError) FV("C20:wrong-exception", "open with an injected fault raised %s", exc_name(ex));
    stat_add("io.fault_fired", 1);
    if (was_open) MM[f->file].dirty = 1;
    f->open = 0; f->unknown = 1;
    /* is a stream open now? ask the layer: the model cannot know which step failed */
    return;
  }
  if (should_fail) {
    if (ex isnt IOError) FV("C20:open-missing-no-ioerror", "opening a missing file for reading raised %s", exc_name(ex));
    f->open = 0; f->unknown = 0;
    return;
  }
  if (ex) FV("C20:open-raised", "open(%s, %s) raised %s", vfs_name(file), MODES[mode], exc_name(ex));
  if (was_open) check_file_content(f->file, "after reopen closed the previous stream");
  f->open = 1; f->unknown = 0; f->file = file; f->mode = mode; f->eof = 0; f->lastdir = 0;
  if (mode == M_W || mode == M_WP) { m->size = 0; m->exists = 1; m->dirty = 0; }
  if (mode == M_A) { m->exists = 1; }
  f->pos = (mode == M_A) ? m->size : 0;
  stat_add("file.open", 1);
}

static void do_close(FObj* f, int fault) {
  var volatile ex = NULL;
  if (fault) vfs_arm(fault, 1);
  CALL(ex, sclose(f->obj));
  int fired = vfs_disarm();
  if (!fired && expect_ioerror_if_closed(f, ex, "sclose")) return;
  if (fired) {
    if (ex && ex isnt IOError) FV("C20:wrong-exception", "sclose with an injected fault raised %s", exc_name(ex));
    stat_add("io.fault_fired", 1); stat_add("io.close_fault", 1);
    MM[f->file].dirty = 1;
    /* the stream is gone whether or not fclose reported an error: the File must count as closed from here on */
    f->open = 0; f->unknown = 0;
    return;
  }
  if (ex) FV("C20:close-raised", "sclose of an open File raised %s", exc_name(ex));
  f->open = 0;
  check_file_content(f->file, "after sclose");
  stat_add("file.close", 1);
}

static void switch_dir(FObj* f, int dir) {
  /* ISO C: between a write and a read on an update stream the program must reposition or flush */
  if (f->open && f->lastdir && f->lastdir != dir && (f->mode == M_RP || f->mode == M_WP)) {
    sseek(f->obj, (int64_t)f->pos, SEEK_SET);
    f->eof = 0;
  }
  f->lastdir = dir;
}

static void do_write(FObj* f, int64_t pat, int64_t len_, int fault, int kth) {
  static unsigned char buf[MAXDATA];
  size_t n = (size_t)(((len_ % MAXDATA) + MAXDATA) % MAXDATA);
  gen_bytes(buf, n, pat);
  var volatile ex = NULL; volatile size_t r = 0;
  if (f->open && !(f->mode == M_R)) switch_dir(f, 2);
  if (fault) vfs_arm(fault, kth);
  CALL(ex, r = swrite(f->obj, buf, n));
  int fired = vfs_disarm();
  if (expect_ioerror_if_closed(f, ex, "swrite")) return;
  if (fault_relax(f, ex, fired, "swrite")) return;
  if (f->unknown) return;
  if (f->mode == M_R) { /* writing a read-only stream: stdio refuses; IOError or a zero count are both fine */ return; }
  if (ex) FV("C20:write-raised", "swrite of %zu bytes raised %s", n, exc_name(ex));
  if (n && r != 1) FV("C20:write-count", "swrite of %zu bytes returned %zu", n, (size_t)r);
  model_write(f, buf, n);
  if (n == 0 && f->lastdir == 2) f->lastdir = 0;
  stat_add("file.write", 1); stat_max("file.max_chunk", (long)n);
}

static void do_read(FObj* f, int64_t len_, int fault, int kth) {
  static unsigned char buf[MAXDATA];
  size_t n = (size_t)(((len_ % MAXDATA) + MAXDATA) % MAXDATA);
  var volatile ex = NULL; volatile size_t r = 0;
  if (f->open && (f->mode == M_R || f->mode == M_RP || f->mode == M_WP)) switch_dir(f, 1);
  memset(buf, 0xEE, n);
  if (fault) vfs_arm(fault, kth);
  CALL(ex, r = sread(f->obj, buf, n));
  int fired = vfs_disarm();
  if (expect_ioerror_if_closed(f, ex, "sread")) return;
  if (fired && fault == VFS_F_SHORT_READ) { fired = 0; stat_add("io.short_read", 1); }    /* legal: must be invisible */
  if (fault_relax(f, ex, fired, "sread")) return;
  if (f->unknown) return;
  if (f->mode == M_W || f->mode == M_A) return;     /* reading a write-only stream: refused by stdio */
  MModel* m = &MM[f->file];
  if (m->dirty) { f->unknown = 1; return; }
  if (ex) FV("C20:read-raised", "sread of %zu bytes at %zu of %zu raised %s", n, f->pos, m->size, exc_name(ex));
  size_t avail = f->pos < m->size ? m->size - f->pos : 0;
  if (n == 0) return;
  if (n <= avail) {
    if (r != 1) FV("C20:read-count", "sread of %zu available bytes returned %zu", n, (size_t)r);
    if (memcmp(buf, m->data + f->pos, n) != 0) FV("C20:bytes-differ", "bytes read at offset %zu (%zu bytes) differ from the bytes written", f->pos, n);
    f->pos += n;
    stat_add("file.read", 1);
  } else {
    if (r != 0) FV("C20:read-count", "sread of %zu bytes with %zu available returned %zu", n, avail, (size_t)r);
    if (memcmp(buf, m->data + f->pos, avail) != 0) FV("C20:bytes-differ", "partial read at offset %zu differs from the bytes written", f->pos);
    f->pos = m->size; f->eof = 1;
    stat_add("file.read_to_eof", 1);
  }
}

static void do_seek(FObj* f, int64_t off, int64_t org, int fault) {
  MModel* m = &MM[f->file];
  int origin = (int)(((org % 3) + 3) % 3);   /* SEEK_SET 0, SEEK_CUR 1, SEEK_END 2 */
  /* glibc's cookie streams mis-compute SEEK_CUR on update streams after a read buffer was filled and a write followed
   * (verified outside Cello: the same calls on a real file succeed), so relative seeks are only used on one-way streams */
  if (origin == SEEK_CUR && (f->mode == M_RP || f->mode == M_WP)) origin = SEEK_SET;
  int64_t target;
  size_t size = f->open ? m->size : 0;
  /* unflushed writes may extend the file: the model size already includes them */
  /* an append stream may be repositioned too (every later write still lands at the end, and stell after that write must say so);
   * where it "is" between the seek and the next write is the C library's business: do_tell skips it until then */
  if (f->open && f->mode == M_A) origin = SEEK_SET;
  uint64_t u = (uint64_t)(off < 0 ? -off : off);
  target = (int64_t)(size ? u % (size + 1) : 0);
  int64_t arg = origin == SEEK_SET ? target : origin == SEEK_CUR ? target - (int64_t)f->pos : target - (int64_t)size;
  var volatile ex = NULL;
  if (fault) vfs_arm(fault, 1);
  CALL(ex, sseek(f->obj, arg, origin));
  int fired = vfs_disarm();
  if (expect_ioerror_if_closed(f, ex, "sseek")) return;
  if (fault_relax(f, ex, fired, "sseek")) return;
  if (f->unknown || m->dirty) { f->unknown = 1; return; }
  if (ex) FV("C20:seek-raised", "sseek(%lld, %d) within the file raised %s", (long long)arg, origin, exc_name(ex));
  f->pos = (size_t)target; f->eof = 0; f->lastdir = 0;
  stat_add("file.seek", 1);
  if (f->mode == M_A) stat_add("file.seek_on_append_stream", 1);
  { char k[32]; snprintf(k, sizeof k, "file.seek_origin%d", origin); stat_add(k, 1); }
}

static void do_tell(FObj* f) {
  var volatile ex = NULL; volatile int64_t t = -1;
  CALL(ex, t = stell(f->obj));
  if (expect_ioerror_if_closed(f, ex, "stell")) return;
  if (f->unknown || MM[f->file].dirty) return;
  if (ex) FV("C20:tell-raised", "stell raised %s", exc_name(ex));
  size_t want = f->pos;
  if (f->mode == M_A && f->lastdir != 2) return;   /* position of an append stream before the first write is implementation defined */
  if ((size_t)t != want) FV("C20:tell-differs", "stell = %lld, the byte count kept by the harness is %zu", (long long)t, want);
  stat_add("file.tell", 1);
}

static void do_eof(FObj* f) {
  var volatile ex = NULL; volatile bool b = false;
  CALL(ex, b = seof(f->obj));
  if (expect_ioerror_if_closed(f, ex, "seof")) return;
  if (f->unknown || MM[f->file].dirty) return;
  if (ex) FV("C20:eof-raised", "seof raised %s", exc_name(ex));
  if ((int)b != f->eof) FV("C20:eof-differs", "seof = %d, the C library's view per the model is %d", (int)b, f->eof);
}

static void do_flush(FObj* f, int fault) {
  var volatile ex = NULL;
  if (fault) vfs_arm(fault, 1);
  CALL(ex, sflush(f->obj));
  int fired = vfs_disarm();
  if (expect_ioerror_if_closed(f, ex, "sflush")) return;
  if (fault_relax(f, ex, fired, "sflush")) return;
  if (f->unknown) return;
  if (ex) FV("C20:flush-raised", "sflush raised %s", exc_name(ex));
  if (f->lastdir == 2) f->lastdir = 0;
}

static void do_print(FObj* f, int64_t fmt, int64_t val, int fault) {
  static char out[4400]; static char arg[4400];
  int k = (int)(((fmt % 6) + 6) % 6);
  /* long pieces: one %s argument / one literal of a length around the sizes a buffered formatter might use */
  static const int LL[] = { 63, 64, 65, 127, 128, 129, 255, 256, 257, 511, 512, 513, 1023, 1024, 1025, 2047, 2048, 2049, 4095, 4096, 4097, 300, 700, 1500 };
  int L = LL[(int)(((val % 24) + 24) % 24)];
  var volatile ex = NULL; volatile int r = 0;
  if (f->open && f->mode != M_R) switch_dir(f, 2);
  if (fault) vfs_arm(fault, 1);
  switch (k) {
    case 0: snprintf(out, sizeof out, "%li ", (long)val); CALL(ex, r = print_to(f->obj, 0, "%li ", $I(val))); break;
    case 1: snprintf(out, sizeof out, "v=%li;", (long)val); CALL(ex, r = print_to(f->obj, 0, "v=%li;", $I(val))); break;
    case 2: snprintf(out, sizeof out, "%s|", val & 1 ? "odd" : "even"); CALL(ex, r = print_to(f->obj, 0, "%s|", $S(val & 1 ? "odd" : "even"))); break;
    case 3: snprintf(out, sizeof out, "%li ", (long)val); CALL(ex, r = print_to(f->obj, 0, "%$ ", $I(val))); break;
    case 4: for (int i = 0; i < L; i++) arg[i] = (char)('a' + (val + i) % 26);
            arg[L] = 0; memcpy(out, arg, (size_t)L + 1);
            CALL(ex, r = print_to(f->obj, 0, "%s", $S(arg))); stat_add("file.print_long_piece", 1); break;
    default: for (int i = 0; i < L - 1; i++) arg[i] = (char)('A' + (val + i) % 26);
            arg[L - 1] = '\n'; arg[L] = 0; memcpy(out, arg, (size_t)L + 1);
            CALL(ex, r = print_to(f->obj, 0, arg)); stat_add("file.print_long_piece", 1); break;
  }
  int fired = vfs_disarm();
  if (expect_ioerror_if_closed(f, ex, "print_to")) return;
  if (fault_relax(f, ex, fired, "print_to")) return;
  if (f->unknown || f->mode == M_R) return;
  if (ex) FV("C20:print-raised", "print_to raised %s", exc_name(ex));
  model_write(f, (unsigned char*)out, strlen(out));
  stat_add("file.print", 1);
  (void)r;
}

static void do_scan(FObj* f, int64_t fmt) {
  /* read back one "%li " item if the model says one starts at the current position */
  MModel* m = &MM[f->file];
  var volatile ex = NULL;
  var x = $I(-777);
  if (f->open && (f->mode == M_R || f->mode == M_RP || f->mode == M_WP)) switch_dir(f, 1);
  int modelled = f->open && !f->unknown && !m->dirty && (f->mode == M_R || f->mode == M_RP || f->mode == M_WP);
  long want = 0; int consumed = 0; int ok = 0;
  if (modelled && f->pos < m->size) {
    char tmp[64]; size_t l = m->size - f->pos < 63 ? m->size - f->pos : 63;
    memcpy(tmp, m->data + f->pos, l); tmp[l] = 0;
    if (sscanf(tmp, "%li %n", &want, &consumed) >= 1 && consumed > 0 && (size_t)consumed < l) ok = 1;   /* an item fully inside the buffer */
  }
  if (f->open && !ok) return;       /* nothing the model can predict: skip (no call) */
  CALL(ex, scan_from(f->obj, 0, "%li ", x));
  if (expect_ioerror_if_closed(f, ex, "scan_from")) return;
  if (ex) FV("C20:scan-raised", "scan_from raised %s", exc_name(ex));
  if (c_int(x) != want) FV("C20:scan-differs", "scan_from read %lld, print_to had written %ld", (long long)c_int(x), want);
  f->pos += (size_t)consumed;
  stat_add("file.scan", 1);
  (void)fmt;
}

static void do_with(FObj* f, int64_t pat, int64_t len_) {
  /* leaving a with block closes the stream exactly once */
  if (!f->open || f->unknown) return;
  static unsigned char buf[4096];
  size_t n = (size_t)(((len_ % 4096) + 4096) % 4096);
  gen_bytes(buf, n, pat);
  var volatile ex = NULL;
  long closes0 = vfs_stats.closes;
  int canw = f->mode != M_R;
  if (canw) switch_dir(f, 2);
  try {
    with (s in f->obj) {
      if (canw) swrite(s, buf, n);
    }
  } catch (e) { ex = e; }
  if (ex) FV("C20:with-raised", "a with block over an open File raised %s", exc_name(ex));
  if (vfs_stats.closes != closes0 + 1) FV("C20:with-close-count", "leaving a with block closed the stream %ld times", vfs_stats.closes - closes0);
  if (canw) model_write(f, buf, n);
  f->open = 0;
  check_file_content(f->file, "after a with block");
  stat_add("file.with", 1);
}

static void do_del(FObj* f, int fault) {
  var volatile ex = NULL;
  long closes0 = vfs_stats.closes;
  int was_open = f->open, unknown = f->unknown;
  if (fault) vfs_arm(fault, 1);
  CALL(ex, del_raw(f->obj));
  int fired = vfs_disarm();
  if (fired) { if (ex && ex isnt IOError) FV("C20:wrong-exception", "del with an injected fault raised %s", exc_name(ex)); MM[f->file].dirty = 1; stat_add("io.fault_fired", 1); }
  else if (!unknown) {
    if (ex) FV("C20:del-raised", "del of a File raised %s", exc_name(ex));
    if (vfs_stats.closes - closes0 != (was_open ? 1 : 0)) FV("C20:del-close-count", "del of a%s File closed a stream %ld times", was_open ? "n open" : " closed", vfs_stats.closes - closes0);
  }
  if (ex) {
    /* the object was not released (the destructor raised): release the memory without running it again */
    CALL(ex, dealloc_raw(f->obj));
  }
  f->obj = new_raw(File);
  f->open = 0; f->unknown = 0;
  if (was_open && !fired) check_file_content(f->file, "after del");
  stat_add("file.del", 1);
}

static void files_execute(const Plan* p) {
  vfs_reset();
  g_faults = (int)plan_env(p, "faults", 0);
  for (int i = 0; i < VFS_NFILES; i++) { MM[i].data = harness_alloc(VFS_FILECAP); MM[i].size = 0; MM[i].exists = 0; MM[i].dirty = 0; }
  for (int i = 0; i < NFOBJ; i++) { memset(&FO[i], 0, sizeof FO[i]); FO[i].obj = new_raw(File); }
  for (int i = 0; i < p->nops; i++) {
    const Op* o = &p->ops[i];
    g_opidx = i;
    progress(i, "C20", OPS[o->code].name);
    ev("op %d %s", i, OPS[o->code].name);
    FObj* f = &FO[(int)(((o->a[0] % NFOBJ) + NFOBJ) % NFOBJ)];
    int fault = g_faults ? (o->fault % VFS_F_NKINDS) : (o->fault == VFS_F_SHORT_READ ? VFS_F_SHORT_READ : 0);
    int kth = 1 + (o->fault / VFS_F_NKINDS) % 4;
    switch (o->code) {
      case F_OPEN: do_open(f, (int)(((o->a[1] % VFS_NFILES) + VFS_NFILES) % VFS_NFILES), (int)(((o->a[2] % M_NMODES) + M_NMODES) % M_NMODES), 0, (fault == VFS_F_FOPEN_FAIL || fault == VFS_F_FCLOSE_FAIL) ? fault : 0); break;
      case F_NEWOPEN: { int inplace = (int)((o->a[2] / M_NMODES) % 2 == 1);
        do_open(f, (int)(((o->a[1] % VFS_NFILES) + VFS_NFILES) % VFS_NFILES), (int)(((o->a[2] % M_NMODES) + M_NMODES) % M_NMODES), inplace ? 2 : 1,
                inplace ? ((fault == VFS_F_FOPEN_FAIL || fault == VFS_F_FCLOSE_FAIL) ? fault : 0) : (fault == VFS_F_FOPEN_FAIL ? fault : 0)); break; }
      case F_CLOSE: do_close(f, (fault == VFS_F_FCLOSE_FAIL || fault == VFS_F_WRITE_EIO || fault == VFS_F_WRITE_ENOSPC) ? fault : 0); break;
      case F_WRITE: do_write(f, o->a[1], o->a[2], (fault == VFS_F_WRITE_EIO || fault == VFS_F_WRITE_ENOSPC) ? fault : 0, kth); break;
      case F_READ: do_read(f, o->a[1], (fault == VFS_F_READ_ERR || fault == VFS_F_SHORT_READ) ? fault : 0, kth); break;
      case F_SEEK: do_seek(f, o->a[1], o->a[2], (fault == VFS_F_SEEK_ERR || fault == VFS_F_WRITE_EIO) ? fault : 0); break;
      case F_TELL: do_tell(f); break;
      case F_EOF: do_eof(f); break;
      case F_FLUSH: do_flush(f, (fault == VFS_F_WRITE_EIO || fault == VFS_F_WRITE_ENOSPC) ? fault : 0); break;
      case F_PRINT: do_print(f, o->a[1], o->a[2], (fault == VFS_F_WRITE_EIO) ? fault : 0); break;
      case F_SCAN: do_scan(f, o->a[1]); break;
      case F_WITH: do_with(f, o->a[1], o->a[2]); break;
      case F_DEL: do_del(f, (fault == VFS_F_FCLOSE_FAIL) ? fault : 0); break;
      default: break;
    }
    check_vfs_counters(OPS[o->code].name);
    ev("f%d open=%d pos=%zu", (int)(f - FO), f->open, f->pos);
  }
  progress(p->nops, "C20", "final-del");
  for (int i = 0; i < NFOBJ; i++) { var volatile ex = NULL; CALL(ex, del_raw(FO[i].obj)); if (ex && !FO[i].unknown) FV("C20:del-raised", "final del of a File raised %s", exc_name(ex)); }
  check_vfs_counters("final del");
  if (vfs_open_streams() != 0) FV("C20:stream-leaked", "%d streams still open after every File was deleted", vfs_open_streams());
  if (vfs_stats.opens != vfs_stats.closes) FV("C20:open-close-mismatch", "%ld successful opens, %ld closes", vfs_stats.opens, vfs_stats.closes);
  for (int i = 0; i < VFS_NFILES; i++) check_file_content(i, "at the end");
  stat_add("io.cookie_reads", vfs_stats.reads); stat_add("io.cookie_writes", vfs_stats.writes); stat_add("io.cookie_seeks", vfs_stats.seeks);
  if (stat_get("file.seek") > 0 && stat_get("file.reopen") + stat_get("file.open") > 1 && stat_get("file.op_after_close") > 0) mark_nontrivial();
}

static void files_generate_random(Plan* p, Rng* r, int maxops);
static void files_generate(Plan* p, Rng* r) {
  if (plan_env(p, "enum", 0)) {
    /* enumeration family: run index = base * 96 + v.  The base plan (<= 12 operations, fault free) is shared; member v injects
     * fault kind (v % 8) at the ((v / 8) % 12)-th operation, so every operation of the plan meets every fault kind
     * (kind 0 = the fault-free member); the k-th-callback selector cycles with the base index */
    uint64_t base = p->run / 96; int v = (int)(p->run % 96);
    Rng rb; rng_seed(&rb, p->seed, base, STREAM_PLAN);
    plan_env_set(p, "faults", 1);
    files_generate_random(p, &rb, 12);
    for (int i = 0; i < p->nops; i++) p->ops[i].fault = 0;
    int kind = v % VFS_F_NKINDS, at = (v / 8) % 12;
    if (kind && at < p->nops) p->ops[at].fault = (uint8_t)(kind + VFS_F_NKINDS * (int)(base % 4));
    return;
  }
  files_generate_random(p, r, 0);
}
static void files_generate_random(Plan* p, Rng* r, int maxops) {
  int faults = (int)plan_env(p, "faults", 0);
  plan_env_set(p, "alloc.place", (int)rng_below(r, 3));
  int nops = rng_chance(r, 6, 10) ? 6 + (int)rng_below(r, 30) : 30 + (int)rng_below(r, 120);
  if (maxops) nops = 4 + (int)rng_below(r, (uint32_t)maxops - 3);
  static const int lens[] = { 0, 1, 2, 7, 100, 511, 4095, 4096, 4097, 8191, 8192, 8193, 16384, 20000, 24576, 3, 64, 1000 };
  for (int i = 0; i < nops; i++) {
    uint32_t d = rng_below(r, 100);
    int64_t fo = rng_below(r, NFOBJ), a = rng_below(r, 100000), len_ = lens[rng_below(r, 18)];
    int fault = 0;
    if (faults && rng_chance(r, 1, 6)) { int fk = (int)rng_below(r, VFS_F_NKINDS - 1); int fw = (int)rng_below(r, 4); fault = 1 + fk + VFS_F_NKINDS * fw; }
    if (!faults && rng_chance(r, 1, 5)) fault = VFS_F_SHORT_READ;
    if (d < 16) { int64_t o3 = rng_below(r, M_NMODES); uint32_t ob = rng_chance(r, 3, 4) ? 2 : VFS_NFILES; int64_t o2 = rng_below(r, ob); plan_add(p, F_OPEN, 0, fault, fo, o2, o3, 0, 0, 0); }
    else if (d < 19) { int64_t n3 = rng_below(r, 2 * M_NMODES), n2 = rng_below(r, 2); plan_add(p, F_NEWOPEN, 0, fault, fo, n2, n3, 0, 0, 0); }
    else if (d < 29) plan_add(p, F_CLOSE, 0, fault, fo, 0, 0, 0, 0, 0);
    else if (d < 47) plan_add(p, F_WRITE, 0, fault, fo, a, len_, 0, 0, 0);
    else if (d < 63) plan_add(p, F_READ, 0, fault, fo, len_, 0, 0, 0, 0);
    else if (d < 72) plan_add(p, F_SEEK, 0, fault, fo, a, rng_below(r, 3), 0, 0, 0);
    else if (d < 77) plan_add(p, F_TELL, 0, 0, fo, 0, 0, 0, 0, 0);
    else if (d < 81) plan_add(p, F_EOF, 0, 0, fo, 0, 0, 0, 0, 0);
    else if (d < 85) plan_add(p, F_FLUSH, 0, fault, fo, 0, 0, 0, 0, 0);
    else if (d < 90) { int64_t r3 = (int64_t)rng_below(r, 2000000) - 1000000; int64_t r2 = rng_chance(r, 1, 4) ? 4 + rng_below(r, 2) : rng_below(r, 4); plan_add(p, F_PRINT, 0, fault, fo, r2, r3, 0, 0, 0); }
    else if (d < 93) plan_add(p, F_SCAN, 0, 0, fo, 0, 0, 0, 0, 0);
    else if (d < 96) plan_add(p, F_WITH, 0, 0, fo, a, len_, 0, 0, 0);
    else plan_add(p, F_DEL, 0, fault, fo, 0, 0, 0, 0, 0);
  }
}

const Scenario scen_files = { "files", OPS, F_NOPS, files_generate, files_execute, "C20" };
